"""C13 — state grids are well formed and refinement nests them.

`refine` is verified for axes of *symbolic length* (inductive invariant over the insertion loop, quantified facts with
explicit instances), for the arithmetic middle and for an abstract middle that is only known to lie strictly inside
the gap (which is what the probability-step grid's root finder is assumed to deliver).  The constructors' assembly
(left | 0 | right) is verified with symbolic h, bounds and values for every number of points per side <= N_SIDE.
"""
import math

import numpy as np
import z3

from pyvc.contract import FunctionContract, Lemma, VC, Req, ForAllInts
from pyvc.interp import LoopSpec
from pyvc.sym import And, Or, Not, Implies, If, Eq, compare, smax, smin, is_sym, Sym, lift, as_real_term, as_int_term
from pyvc.values import SymSeq

PROPERTY_ID = "C13"
LEVEL = "proof"
SP = "rpylib.grid.spatial:"
GR = "rpylib.grid.grid:"
N_SIDE = 4

MIDF = z3.Function("MID", z3.RealSort(), z3.RealSort(), z3.RealSort())


def MID(x, y):
    return Sym(MIDF(as_real_term(lift(x)), as_real_term(lift(y))), "r")


def increasing(seq):
    """adjacent strict increase of a SymSeq (quantified)"""
    return ForAllInts("kk", 0, seq.length - 1, lambda k: seq.raw(k) < seq.raw(k + 1))


class ArithmeticMiddle(FunctionContract):
    """CTMCGrid.middle(float, float): the arithmetic mean, strictly inside a non-empty gap (the generic contract every
    grid's `middle` has to meet: x < middle(x, y) < y)."""
    prop = "C13"
    target = SP + "CTMCGrid.middle"
    name = "CTMCGrid.middle[float]"

    def setup(self, vc, case):
        return dict(self=vc.obj(SP + "CTMCGrid"), xi=vc.real("xi"), xip=vc.real("xip"))

    def ensures(self, result, xi=None, xip=None, **kw):
        return {"is-arithmetic-mean": 2 * result == xi + xip,
                "strictly-inside-the-gap": Implies(xi < xip, And(xi < result, result < xip))}

    def replay(self, model, clause, case):
        from rpylib.grid.spatial import CTMCGrid
        g = CTMCGrid(h=0.1, origin_coordinate=1, axes=[np.array([-0.1, 0.0, 0.1])])
        xi, xip = float(model["xi"]["float"]) if isinstance(model["xi"], dict) else float(model["xi"]), float(model["xip"]["float"]) if isinstance(model["xip"], dict) else float(model["xip"])
        r = g.middle(xi, xip)
        return (not Req(2 * r, xi + xip) or (xi < xip and not (xi < r < xip)), {"xi": xi, "xip": xip, "native": r})


class MiddleAbstract(FunctionContract):
    """contract used at call sites of `middle`: an abstract point MID(x, y) strictly inside the gap"""
    prop = "C13"
    name = "middle(abstract)"

    def __init__(self, target):
        self.target = target

    def requires(self, xi=None, xip=None, self_=None, **kw):
        # MID(x, y) is the grid's cell boundary in the state the grid has BEFORE it is refined: a grid's `middle` may read
        # the grid (CTMCGridProbabilityStep.middle reads self.h), so every call must see the un-refined step h
        from pyvc import ctx
        h0 = ctx.PATH.ghost.get("h0") if ctx.PATH is not None else None
        if self_ is not None and h0 is not None and "h" in getattr(self_, "fields", {}):
            return And(xi < xip, self_.fields["h"] == h0)
        return xi < xip

    def ensures(self, result, xi=None, xip=None, **kw):
        return {"def": result == MID(xi, xip), "inside": And(xi < result, result < xip)}

    def modular_result(self, vc, **kw):
        return vc.fresh("mid", "r")


def concrete(v):
    from pyvc.sym import concrete_value
    return concrete_value(v) if is_sym(v) else v


def inv_at(ax, old, k, J):
    """single-index form of the insertion invariant (J arbitrary but fixed): no quantifier needed, it is inductive by itself"""
    n = old.length
    return And(Implies(And(J >= 0, J < k), And(ax.raw(2 * J) == old.raw(J), ax.raw(2 * J + 1) == MID(old.raw(J), old.raw(J + 1)))),
               Implies(And(J >= k, J < n), ax.raw(k + J) == old.raw(J)))


def refine_invariant(L, g):
    key = ("old", concrete(L.kth_axis))
    if key not in g:
        g[key] = L.axis            # first evaluation = loop entry: the axis before any insertion
    old, ax, k = g[key], L.axis, L._i
    n = old.length
    return And(ax.length == n + k, *[inv_at(ax, old, k, J) for J in g["Js"]])


class Refine(FunctionContract):
    """CTMCGrid.refine on axes of symbolic length n >= 3 (dimension 1 and 2, shared-axis storage [axis]*d).

    Quantified statements are proved in skolemised form: I is an arbitrary index of the refined axis, J = I div 2 the
    old gap it falls in; the invariant is carried for the instances J, J+1, o, o-1 (o = origin index), 0 and n-1.
    """
    prop = "C13"
    target = SP + "CTMCGrid.refine"
    cases = (1, 2, "2-per-axis")

    def __init__(self):
        self.name = "CTMCGrid.refine"
        self.loops = {1: LoopSpec(refine_invariant, index="_i")}
        self.mid = MiddleAbstract(SP + "CTMCGrid.middle.register[float]")
        self.modular = (self.mid,)

    def setup(self, vc, d):
        per_axis = d == "2-per-axis"
        d = 2 if per_axis else d
        ax = vc.seq("axis", "r", min_len=3)
        n = ax.length
        h, o = vc.real("h"), vc.int("origin")
        I = vc.int("I")
        J = I // 2
        vc.assume(And(h > 0, o >= 1, o <= n - 2, I >= 0, I < 2 * n - 2))
        Js = [J, J + 1, o, o - 1, 0, n - 1, n - 2]
        olds = [ax] * d
        if per_axis:
            bx = vc.seq("axis_b", "r", min_len=3)
            vc.assume(bx.length == n)          # same number of states (the origin index is shared by construction)
            olds = [ax, bx]
        for a_ in (olds if per_axis else [ax]):
            vc.assume(increasing(a_))
            # instances of the precondition `strictly increasing` at the tracked indices
            for j in Js:
                vc.assume(Implies(And(j >= 0, j < n - 1), a_.raw(j) < a_.raw(j + 1)))
            vc.assume(And(a_.raw(o) == 0, a_.raw(o - 1) == -h, a_.raw(o + 1) == h))
        # contract of the grid's `middle`, for all arguments (proved for the arithmetic middle in ArithmeticMiddle)
        x, y = z3.Real("mx"), z3.Real("my")
        vc.assume(Sym(z3.ForAll([x, y], z3.Implies(x < y, z3.And(x < MIDF(x, y), MIDF(x, y) < y)), patterns=[MIDF(x, y)]), "b"))
        grid = vc.obj(SP + "CTMCGrid", axes=list(olds), dimension=d, h=h,
                      origin_coordinate=vc.new(GR + "Coordinates", o if d == 1 else [o] * d),
                      truncations=[(a_.raw(0), a_.raw(n - 1)) for a_ in olds])
        g = vc.ghost
        g["ax0"], g["h0"], g["o0"], g["d"], g["I"], g["J"], g["Js"], g["olds"] = ax, h, o, d, I, J, Js, olds
        return dict(self=grid)

    def ensures(self, result, self_=None):
        from pyvc import ctx
        g = ctx.PATH.ghost
        old, h0, o0, d, I, J = g["ax0"], g["h0"], g["o0"], g["d"], g["I"], g["J"]
        n = old.length
        out = {}
        ov = self_.fields["origin_coordinate"].fields["value"]
        out["h-halved"] = 2 * self_.fields["h"] == h0
        out["origin-index-doubled"] = (ov == 2 * o0) if d == 1 else And(*[c == 2 * o0 for c in ov])
        out["truncations-unchanged"] = And(*[And(t[0] == a_.raw(0), t[1] == a_.raw(n - 1)) for t, a_ in zip(self_.fields["truncations"], g["olds"])])
        for kk, new in enumerate(self_.fields["axes"]):
            p = f"axis{kk}:"
            old = g["olds"][kk]
            if not isinstance(new, SymSeq):
                out[p + "is-array"] = False
                continue
            out[p + "length-2n-1"] = new.length == 2 * n - 1
            out[p + "old-states-at-twice-their-index"] = And(new.raw(2 * J) == old.raw(J), new.raw(2 * J + 2) == old.raw(J + 1))
            out[p + "one-new-state-per-gap-at-the-grid's-own-middle"] = new.raw(2 * J + 1) == MID(old.raw(J), old.raw(J + 1))
            out[p + "new-state-strictly-inside-the-gap"] = And(old.raw(J) < new.raw(2 * J + 1), new.raw(2 * J + 1) < old.raw(J + 1))
            out[p + "strictly-increasing"] = new.raw(I) < new.raw(I + 1)
            out[p + "origin-is-zero"] = new.raw(2 * o0) == 0
            out[p + "origin-neighbours-are-the-middles-of-the-old-central-gaps"] = And(new.raw(2 * o0 + 1) == MID(0, h0), new.raw(2 * o0 - 1) == MID(-h0, 0))
            out[p + "end-points-are-the-truncations"] = And(new.raw(0) == old.raw(0), new.raw(new.length - 1) == old.raw(n - 1))
        return out

    def replay(self, model, clause, case):
        from rpylib.grid.spatial import CTMCUniformGrid, CTMCGrid
        bad = False
        case = 2 if case == "2-per-axis" else case
        if case >= 2:
            # per-axis storage with different values on each axis, refined twice
            # (a) different bounds per axis, (b) the same number of states and the same bounds but different interior states
            for axes in ([np.array([-1.0, -0.4, -0.25, 0.0, 0.25, 0.7, 2.0]), np.array([-3.0, -0.9, -0.25, 0.0, 0.25, 0.3, 0.5])],
                         [np.array([-1.0, -0.4, -0.25, 0.0, 0.25, 0.7, 2.0]), np.array([-1.0, -0.9, -0.25, 0.0, 0.25, 0.3, 2.0])]):
                axes = axes[:case]
                g2 = CTMCGrid(h=0.25, origin_coordinate=3, axes=[a.copy() for a in axes])
                g2.truncations = [(a[0], a[-1]) for a in axes]
                for _ in range(2):
                    prev = [a.copy() for a in g2.axes]
                    g2.refine()
                    for a, b in zip(prev, g2.axes):
                        bad |= len(b) != 2 * len(a) - 1 or not np.allclose(b[::2], a) or not np.allclose(b[1::2], 0.5 * (a[:-1] + a[1:]))
                if bad:
                    return (True, {"per_axis_grid": [a.tolist() for a in axes], "after_two_refinements": [a.tolist() for a in g2.axes]})
        g = CTMCUniformGrid.create_from_fixed_nb_of_points(h=0.25, nb_of_points=7, dimension=case)
        old = [a.copy() for a in g.axes]
        o0, h0, tr = g.origin_coordinate.value, g.h, list(g.truncations)
        g.refine()
        for a, b in zip(old, g.axes):
            bad |= len(b) != 2 * len(a) - 1 or not np.allclose(b[::2], a) or not np.allclose(b[1::2], 0.5 * (a[:-1] + a[1:])) or not np.all(np.diff(b) > 0)
        oc = g.origin_coordinate.value
        bad |= (oc != 2 * o0) if case == 1 else any(c != 2 * o for c, o in zip(oc, o0))
        bad |= g.h != h0 / 2 or list(g.truncations) != tr
        return (bool(bad), {"old_axis": old[0].tolist(), "new_axis": g.axes[0].tolist(), "h": g.h, "origin": str(oc)})


UNITS = [ArithmeticMiddle(), Refine()]
ASSUMPTIONS = ["A1: floats are mathematical reals", "np.insert / np.concatenate on arrays of symbolic length are modelled as array lambdas (library model)"]
TRUSTED_BASE = ["z3 5.1 (LRA + arrays + quantifiers with explicit instances)", "pyvc interpreter + numpy models"]
BOUNDED = []


# ----------------------------------------------------------------- constructors: assembly  left | 0 | right
class Truncation(FunctionContract):
    """assumed contract (A3, root finder): compute_truncation returns roots inside the brentq brackets
    [-100, -h/2] and [h/2, 100]"""
    prop = "C13"
    target = SP + "compute_truncation"
    name = "compute_truncation(assumed)"

    def requires(self, h=None, **kw):
        return h > 0

    def ensures(self, result, h=None, **kw):
        l, r = result
        return {"brackets": And(2 * l <= -h, 2 * r >= h)}

    def modular_result(self, vc, **kw):
        l, r = vc.fresh("l", "r"), vc.fresh("r", "r")
        vc.register("truncation_left", l)
        vc.register("truncation_right", r)
        vc.ghost["truncation"] = (l, r)
        return (l, r)


def wf_clauses(grid, h, d, prefix="", split_inc=False):
    """well-formedness of a built grid, one clause per statement of the property (concrete-length axes)"""
    out = {}
    axes = grid.fields["axes"]
    oc = grid.fields["origin_coordinate"].fields["value"]
    out[prefix + "dimension"] = len(axes) == d
    for k, ax in enumerate(axes):
        ax = list(ax)
        o = oc if d == 1 else oc[k]
        p = f"{prefix}axis{k}:"
        o_c = concrete(o)
        if o_c is None:
            out[p + "origin-index-concrete"] = False
            continue
        inc = And(*[a < b for a, b in zip(ax, ax[1:])]) if len(ax) > 1 else True
        if split_inc:
            far = And(ax[0] < -h, ax[-1] > h)
            out[p + "strictly-increasing[truncation bounds beyond the first step]"] = Implies(far, inc)
            out[p + "strictly-increasing[a truncation bound inside the first step]"] = Implies(Not(far), inc)
        else:
            out[p + "strictly-increasing"] = inc
        out[p + "zero-at-origin-index"] = (0 <= o_c < len(ax)) and ax[o_c] == 0
        out[p + "left-neighbour-is-minus-h"] = (o_c >= 1) and ax[o_c - 1] == -h
        out[p + "right-neighbour-is-plus-h"] = (o_c + 1 < len(ax)) and ax[o_c + 1] == h
        t = grid.fields["truncations"][k]
        out[p + "end-points-are-the-reported-truncations"] = And(t[0] == ax[0], t[1] == ax[-1])
    out[prefix + "h-recorded"] = grid.fields["h"] == h
    return out


class UniformGridInit(FunctionContract):
    """CTMCUniformGrid.__init__ for every pair (points left, points right) in 2..4 x 2..4 (h, l, r symbolic; the constructor
    rejects a step h that is not strictly inside the truncation bounds and keeps at least the bound and the neighbour of the
    origin on each side)."""
    prop = "C13"
    target = SP + "CTMCUniformGrid.__init__"
    cases = tuple((nl, nr) for nl in range(2, 5) for nr in range(2, 5))

    def __init__(self):
        self.name = "CTMCUniformGrid.__init__"
        self.modular = (Truncation(),)

    def setup(self, vc, case):
        h = vc.real("h")
        model = vc.obj("rpylib.model.levymodel.levymodel:LevyModel")
        vc.interp.hooks["rpylib.model.model:Model.dimension_model"] = lambda it, f, b: 1
        vc.ghost["case"] = case
        return dict(self=vc.obj(SP + "CTMCUniformGrid"), h=h, model=model)

    def configure(self, interp):
        interp.hooks["rpylib.model.model:Model.dimension_model"] = lambda it, f, b: 1

        def after_lr(L, vc):
            nl, nr = vc.ghost["case"]
            vc.assume(And(L.nb_of_points_left == nl, L.nb_of_points_right == nr))
        self.hints = {"nb_of_points_right": after_lr}

    def requires(self, h=None, **kw):
        return h > 0

    def ensures(self, result, self_=None, h=None, **kw):
        return wf_clauses(self_, h, 1)

    # rejected exactly when the step is not strictly inside the truncation bounds (the 1e8-points guard cannot fire for the
    # enumerated point counts)
    raises = {"ValueError": lambda h=None, **a: _step_outside_the_bounds(h)}

    def replay(self, model, clause, case):
        # native witness for the degenerate point counts: light-tailed jumps with a coarse h
        from rpylib.grid.spatial import CTMCUniformGrid
        from rpylib.model.levymodel.mixed.hem import HEMParameters, ExponentialOfHEMModel
        out = None
        for eta, h in ((20.0, 0.5), (50.0, 0.5), (50.0, 0.25)):
            m = ExponentialOfHEMModel(spot=100.0, r=0.02, d=0.0, parameters=HEMParameters(sigma=0.2, p=0.5, eta1=eta, eta2=eta, intensity=1.0))
            try:
                g = CTMCUniformGrid(h=h, model=m)
            except ValueError as e:
                out = {"model": f"HEM eta1=eta2={eta}", "h": h, "rejected": str(e)}
                continue
            ax, o = g.axes[0], g.origin_coordinate.value
            left_ok = o >= 1 and abs(ax[o - 1] + h) < 1e-12
            right_ok = o + 1 < len(ax) and abs(ax[o + 1] - h) < 1e-12
            info = {"model": f"HEM eta1=eta2={eta}", "h": h, "axis": [float(v) for v in ax], "origin_index": int(o)}
            if ("left-neighbour" in clause and not left_ok) or ("right-neighbour" in clause and not right_ok):
                return (True, info)
            out = info
        return (False, out)


UNITS += [UniformGridInit()]


class FixedPoints(FunctionContract):
    """CTMCUniformGrid.create_from_fixed_nb_of_points(h, nb_of_points, dimension) for nb_of_points in 2..9, d in 1..3"""
    prop = "C13"
    target = SP + "CTMCUniformGrid.create_from_fixed_nb_of_points"
    cases = tuple((n, d) for n in range(2, 10) for d in (1, 2, 3) if d == 1 or n in (3, 6))

    def __init__(self):
        self.name = "CTMCUniformGrid.create_from_fixed_nb_of_points"

    def setup(self, vc, case):
        n, d = case
        return dict(cls=vc.interp.get_class(SP + "CTMCUniformGrid"), h=vc.real("h"), nb_of_points=n, dimension=d)

    def requires(self, h=None, **kw):
        return h > 0

    def ensures(self, result, h=None, nb_of_points=None, dimension=None, **kw):
        out = wf_clauses(result, h, dimension)
        ax = list(result.fields["axes"][0])
        out["symmetric-uniform-axis"] = And(*[ax[i + 1] - ax[i] == h for i in range(len(ax) - 1)])
        out["number-of-points"] = len(ax) == 2 * (nb_of_points // 2) + 1
        return out

    def replay(self, model, clause, case):
        from rpylib.grid.spatial import CTMCUniformGrid
        n, d = case
        h = 0.25
        g = CTMCUniformGrid.create_from_fixed_nb_of_points(h=h, nb_of_points=n, dimension=d)
        ax, o = g.axes[0], (g.origin_coordinate.value if d == 1 else g.origin_coordinate.value[0])
        bad = not (np.all(np.diff(ax) > 0) and ax[o] == 0 and np.isclose(ax[o - 1], -h) and np.isclose(ax[o + 1], h) and g.truncations[0] == (ax[0], ax[-1]))
        return (bool(bad), {"axis": ax.tolist(), "origin": int(o)})


def _step_outside_the_bounds(h):
    from pyvc import ctx
    t = ctx.PATH.ghost.get("truncation")
    if t is None:
        return False
    l, r = t
    return Not(And(l < -h, h < r))


class GeometricInit(FunctionContract):
    prop = "C13"
    target = SP + "CTMCGridGeometric.__init__"
    cases = (2, 3, 4)

    # a step h that is not strictly inside the truncation bounds is rejected -- exactly then
    raises = {"ValueError": lambda h=None, **a: _step_outside_the_bounds(h)}

    def __init__(self):
        self.name = "CTMCGridGeometric.__init__"
        self.modular = (Truncation(),)

    def configure(self, interp):
        interp.hooks["rpylib.model.model:Model.dimension_model"] = lambda it, f, b: 1

    def setup(self, vc, case):
        return dict(self=vc.obj(SP + "CTMCGridGeometric"), h=vc.real("h"), model=vc.obj("rpylib.model.levymodel.levymodel:LevyModel"),
                    nb_of_points_on_each_side=case)

    def requires(self, h=None, **kw):
        return h > 0

    def ensures(self, result, self_=None, h=None, **kw):
        return wf_clauses(self_, h, 1, split_inc=True)

    def replay(self, model, clause, case):
        from rpylib.grid.spatial import CTMCGridGeometric
        from rpylib.model.levymodel.mixed.hem import HEMParameters, ExponentialOfHEMModel
        for eta, h in ((20.0, 0.5), (50.0, 0.5), (5.0, 0.1)):
            m = ExponentialOfHEMModel(spot=100.0, r=0.02, d=0.0, parameters=HEMParameters(sigma=0.2, p=0.5, eta1=eta, eta2=eta, intensity=1.0))
            try:
                g = CTMCGridGeometric(h=h, model=m, nb_of_points_on_each_side=case)
            except ValueError:
                continue
            ax, o = g.axes[0], g.origin_coordinate.value
            if not np.all(np.diff(ax) > 0):
                return (True, {"model": f"HEM eta={eta}", "h": h, "axis": ax.tolist()})
        return (False, {})


class GeometricBounds(FunctionContract):
    prop = "C13"
    target = SP + "CTMCGridGeometric.create_with_bounds"
    cases = tuple((n, d) for n in (2, 3, 4) for d in (1, 2))

    def __init__(self):
        self.name = "CTMCGridGeometric.create_with_bounds"

    def setup(self, vc, case):
        n, d = case
        return dict(cls=vc.interp.get_class(SP + "CTMCGridGeometric"), h=vc.real("h"), truncations=(vc.real("l"), vc.real("r")),
                    dimension=d, nb_of_points_on_each_side=n)

    def requires(self, h=None, truncations=None, **kw):
        l, r = truncations
        return And(h > 0, l < -h, r > h)       # documented use: bounds beyond the first step

    def ensures(self, result, h=None, dimension=None, truncations=None, **kw):
        out = wf_clauses(result, h, dimension)
        out["bounds-are-the-given-truncations"] = And(*[And(t[0] == truncations[0], t[1] == truncations[1]) for t in result.fields["truncations"]])
        return out


class CreditInit(FunctionContract):
    """CTMCCredit.__init__: 1-d, and 2-d symmetric / asymmetric; thresholds strictly between the left bound and -h"""
    prop = "C13"
    target = SP + "CTMCCredit.__init__"
    cases = ("1d", "2d-symmetric", "2d-asymmetric")
    raises = {"ValueError": lambda **a: True}
    raises_exact = False

    def __init__(self):
        self.name = "CTMCCredit.__init__"
        self.modular = (Truncation(),)

    def configure(self, interp):
        from pyvc import ctx
        interp.hooks["rpylib.model.model:Model.dimension_model"] = lambda it, f, b: ctx.PATH.ghost["dim"]

    def setup(self, vc, case):
        d = 1 if case == "1d" else 2
        vc.ghost["dim"] = d
        h = vc.real("h")
        a = vc.real("level_a") if d == 1 else vc.reals("level_a", 2)
        return dict(self=vc.obj(SP + "CTMCCredit"), h=h, level_a=a, model=vc.obj("rpylib.model.levymodel.levymodel:LevyModel"),
                    symmetric_grid=(case != "2d-asymmetric"))

    def requires(self, h=None, level_a=None, **kw):
        return h > 0

    def ensures(self, result, self_=None, h=None, level_a=None, **kw):
        d = 1 if not isinstance(level_a, list) else len(level_a)
        out = wf_clauses(self_, h, d, split_inc=True)
        levels = [level_a] if d == 1 else level_a
        for k, (ax, a) in enumerate(zip(self_.fields["axes"], levels)):
            ax = list(ax)
            out[f"axis{k}:threshold-is-the-boundary-between-its-two-states"] = ax[1] + ax[2] == 2 * a
            out[f"axis{k}:threshold-states-distinct"] = ax[1] < ax[2]
        return out

    def replay(self, model, clause, case):
        # native witnesses: left-heavy HEM margins (p=0.1, eta1=40, eta2=4): l = -2.90, r = 0.31
        from rpylib.grid.spatial import CTMCCredit, compute_truncation
        from rpylib.model.levymodel.mixed.hem import HEMParameters, HEMModel
        from rpylib.model.levycopulamodel import LevyCopulaModel
        from rpylib.distribution.levycopula import ClaytonCopula
        mk = lambda: HEMModel(parameters=HEMParameters(sigma=0.2, p=0.1, eta1=40.0, eta2=4.0, intensity=1.0))
        m = mk() if case == "1d" else LevyCopulaModel(models=[mk(), mk()], copula=ClaytonCopula(theta=0.7, eta=0.3))
        h = 0.8 if "inside the first step" in clause else 0.05
        l, r = compute_truncation(m, h)
        a = 0.8 * l if case == "1d" else [0.8 * l, 0.7 * l]
        try:
            g = CTMCCredit(h=h, level_a=a, model=m, symmetric_grid=(case != "2d-asymmetric"))
        except ValueError as e:
            return (False, {"rejected": str(e)})
        bad = any(not np.all(np.diff(ax) > 0) for ax in g.axes)
        return (bool(bad), {"model": "HEM p=0.1 eta1=40 eta2=4" + ("" if case == "1d" else " x2, Clayton"), "h": h, "truncation": [float(l), float(r)],
                            "level_a": a, "axes": [ax.tolist() for ax in g.axes]})


UNITS += [FixedPoints(), GeometricInit(), GeometricBounds(), CreditInit()]


# ================================================================= bounded stand-in (native battery; never counted as proved)
class GridsBattery:
    """B2: every constructor on the model battery x h in H: well-formedness, reported truncations, tail-probability /
    per-step-probability targets (root-finder outputs, assumed in the proofs), and two successive refinements."""
    name = "bounded:grids-battery"
    tier = "quick"

    def run(self, tier, seed):
        from contracts import battery
        from rpylib.grid.spatial import CTMCUniformGrid, CTMCGridGeometric, CTMCGridProbabilityStep
        H = (0.05, 0.02) if tier == "quick" else (0.1, 0.05, 0.02, 0.01)
        ev, viol, samples = 0, {}, []
        ms = battery.models()
        for mname, m in ms.items():
            nu = m.levy_triplet.nu
            for h in H:
                ctors = {"uniform": lambda: CTMCUniformGrid(h=h, model=m),
                         "geometric": lambda: CTMCGridGeometric(h=h, model=m, nb_of_points_on_each_side=4),
                         "probability-step": lambda: CTMCGridProbabilityStep(h=h, model=m, minimum_probability_step=0.05)}
                for cname, mk in ctors.items():
                    ev += 1
                    info = {"model": mname, "h": h, "constructor": cname}
                    try:
                        g = mk()
                        ax, o = g.axes[0], g.origin_coordinate.value
                        ok = battery.wf_axis(ax, o, h) and g.truncations[0] == (ax[0], ax[-1])
                        info.update(points=len(ax), truncations=[float(ax[0]), float(ax[-1])])
                        if cname in ("uniform", "geometric"):
                            # target tail probability 0.99999 on each side beyond the central cell
                            right = nu.integrate(h / 2, ax[-1]) / nu.integrate(h / 2, np.inf)
                            left = nu.integrate(ax[0], -h / 2) / nu.integrate(-np.inf, -h / 2)
                            info.update(tail=[float(left), float(right)])
                            ok = ok and abs(left - 0.99999) < 1e-6 and abs(right - 0.99999) < 1e-6
                        if cname == "probability-step":
                            lam = g.intensity_of_jumps
                            steps = [nu.integrate(a, b) / lam for a, b in zip(ax[o + 1:-2], ax[o + 2:-1])]
                            info.update(max_step_probability=float(max(steps)) if steps else None)
                            ok = ok and all(s <= 0.05 + 1e-6 for s in steps)
                        old = ax.copy()
                        for _ in range(2):
                            prev, po, ph = g.axes[0].copy(), g.origin_coordinate.value, g.h
                            # the cell boundaries the grid itself uses, taken BEFORE refining
                            mids = np.array([g.middle(float(a), float(b)) for a, b in zip(prev, prev[1:])])
                            g.refine()
                            new = g.axes[0]
                            ok = ok and len(new) == 2 * len(prev) - 1 and np.allclose(new[::2], prev, rtol=0, atol=0) and np.all(np.diff(new) > 0) \
                                and g.origin_coordinate.value == 2 * po and g.h == ph / 2 and np.allclose(new[1::2], mids) \
                                and g.truncations[0] == (old[0], old[-1])
                    except Exception as e:
                        ok = False
                        info["exception"] = f"{type(e).__name__}: {e}"
                    if len(samples) < 4:
                        samples.append(info)
                    if not ok:
                        lab = f"{self.name}[{cname}]::well-formed-targets-and-nesting[{mname},h={h}]"      # one label per input: a known finding never hides another input
                        viol.setdefault(lab, {"obligation": lab, "bounded": self.name, "witness": info})
        # history: a second grid for the SAME model object after its parameters were reassigned (calibration) has the truncation
        # bounds of the updated model -- nothing computed for the first grid may be reused
        ev += 1
        try:
            from rpylib.model.utils import create_exponential_of_levy_model, ModelType
            mkm = lambda eta1, eta2: create_exponential_of_levy_model(ModelType.HEM)(spot=100.0, r=0.05, d=0.02, sigma=0.10, p=0.6, eta1=eta1, eta2=eta2, intensity=5.0)
            m1 = mkm(25.0, 40.0)
            g1 = CTMCUniformGrid(h=0.05, model=m1)
            par = m1.levy_model.parameters
            par.eta1, par.eta2 = 8.0, 12.0
            par.initialisation()
            g2 = CTMCUniformGrid(h=0.05, model=m1)
            g3 = CTMCUniformGrid(h=0.05, model=mkm(8.0, 12.0))
            nu2 = m1.levy_triplet.nu
            right = float(nu2.integrate(0.025, g2.axes[0][-1]) / nu2.integrate(0.025, np.inf))
            if g2.truncations != g3.truncations or len(g2.axes[0]) != len(g3.axes[0]) or abs(right - 0.99999) > 1e-6:
                lab = f"{self.name}[uniform]::second-grid-after-a-parameter-update-has-the-updated-truncation"
                viol.setdefault(lab, {"obligation": lab, "bounded": self.name, "witness": {"model": "HEM eta (25, 40) -> (8, 12) on the same model object", "h": 0.05,
                                      "first_grid_truncations": [float(v) for v in g1.truncations[0]], "second_grid_truncations": [float(v) for v in g2.truncations[0]],
                                      "fresh_model_truncations": [float(v) for v in g3.truncations[0]], "right_tail_probability_of_the_second_grid": right}})
        except Exception as e:
            lab = f"{self.name}[uniform]::second-grid-after-a-parameter-update-has-the-updated-truncation"
            viol.setdefault(lab, {"obligation": lab, "bounded": self.name, "witness": {"exception": f"{type(e).__name__}: {e}"}})
        return {"name": self.name, "evaluations": ev, "distinct_nontrivial": ev, "violations": list(viol.values()), "samples": samples,
                "bound": f"models {sorted(ms)} x h in {H} x 3 constructors x 2 refinements; one parameter-update history"}

    def replay(self, rec):
        r = self.run("thorough", 0)
        hit = [v for v in r["violations"] if v["obligation"] == rec["obligation"]]
        return (bool(hit), hit[0]["witness"] if hit else {})


BOUNDED = [GridsBattery()]


class CoordinateProducts(Lemma):
    """arithmetic the origin index goes through ("doubles the origin index"): c * n and n * c return a NEW coordinate with every
    index multiplied and leave c itself unchanged (frame); only c *= n changes c (real Coordinate1D / CoordinateND bodies)."""
    prop = "C13"
    cases = ("Coordinate1D", "CoordinateND")
    name = "property:coordinate-products"

    def prove(self, vc, kind):
        nm = f"{self.name}[{kind}]"
        GRD = "rpylib.grid.grid:"
        it = vc.interp
        n = vc.int("factor")
        cs = vc.ints("index", 1 if kind == "Coordinate1D" else 2)
        mk = lambda: vc.new(GRD + "Coordinate1D", cs[0]) if kind == "Coordinate1D" else vc.new(GRD + "CoordinateND", list(cs))
        val = lambda o: [o.fields["value"]] if kind == "Coordinate1D" else list(o.fields["value"])
        for side in ("c * n", "n * c"):
            c = mk()
            import ast as _ast
            r = it.binop(_ast.Mult, c, n) if side == "c * n" else it.binop(_ast.Mult, n, c)
            ok = hasattr(r, "fields") and r is not c
            vc.check(nm + f"::{side}:returns-a-new-coordinate", ok)
            if hasattr(r, "fields"):
                vc.check(nm + f"::{side}:every-index-multiplied", And(*[compare(a, b * n, "==") for a, b in zip(val(r), cs)]))
            vc.check(nm + f"::{side}:the-coordinate-itself-is-unchanged", And(*[compare(a, b, "==") for a, b in zip(val(c), cs)]))
        c = mk()
        r = vc.method(c, "__imul__", n)
        vc.check(nm + "::c *= n:multiplies-in-place", r is c and And(*[compare(a, b * n, "==") for a, b in zip(val(c), cs)]))

    def replay(self, model, clause, kind):
        from rpylib.grid.grid import Coordinate1D, CoordinateND
        c = Coordinate1D(3) if kind == "Coordinate1D" else CoordinateND([3, 4])
        before = c.value
        r = (2 * c) if "n * c" in clause else (c * 2)
        return (c.value != before or r is c, {"expression": "2 * c" if "n * c" in clause else "c * 2", "coordinate_before": before, "coordinate_after": c.value, "result_is_the_same_object": r is c})


UNITS += [CoordinateProducts()]
