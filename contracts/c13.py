"""C13 — state grids are well formed and refinement nests them.

`refine` is verified for axes of *symbolic length* (inductive invariant over the insertion loop, quantified facts with
explicit instances), for the arithmetic middle and for an abstract middle that is only known to lie strictly inside
the gap (which is what the probability-step grid's root finder is assumed to deliver).  The constructors' assembly
(left | 0 | right) is verified with symbolic h, bounds and values for every number of points per side <= N_SIDE.
"""
import math

import numpy as np
import z3

from pyvc.contract import FunctionContract, Lemma, VC, Req, ForAllInts
from pyvc.interp import LoopSpec
from pyvc.sym import And, Or, Not, Implies, If, Eq, compare, smax, smin, is_sym, Sym, lift, as_real_term, as_int_term
from pyvc.values import SymSeq

PROPERTY_ID = "C13"
LEVEL = "proof"
SP = "rpylib.grid.spatial:"
GR = "rpylib.grid.grid:"
N_SIDE = 4

MIDF = z3.Function("MID", z3.RealSort(), z3.RealSort(), z3.RealSort())


def MID(x, y):
    return Sym(MIDF(as_real_term(lift(x)), as_real_term(lift(y))), "r")


def increasing(seq):
    """adjacent strict increase of a SymSeq (quantified)"""
    return ForAllInts("kk", 0, seq.length - 1, lambda k: seq.raw(k) < seq.raw(k + 1))


class ArithmeticMiddle(FunctionContract):
    """CTMCGrid.middle(float, float): the arithmetic mean, strictly inside a non-empty gap (the generic contract every
    grid's `middle` has to meet: x < middle(x, y) < y)."""
    prop = "C13"
    target = SP + "CTMCGrid.middle"
    name = "CTMCGrid.middle[float]"

    def setup(self, vc, case):
        return dict(self=vc.obj(SP + "CTMCGrid"), xi=vc.real("xi"), xip=vc.real("xip"))

    def ensures(self, result, xi=None, xip=None, **kw):
        return {"is-arithmetic-mean": 2 * result == xi + xip,
                "strictly-inside-the-gap": Implies(xi < xip, And(xi < result, result < xip))}

    def replay(self, model, clause, case):
        from rpylib.grid.spatial import CTMCGrid
        g = CTMCGrid(h=0.1, origin_coordinate=1, axes=[np.array([-0.1, 0.0, 0.1])])
        xi, xip = float(model["xi"]["float"]) if isinstance(model["xi"], dict) else float(model["xi"]), float(model["xip"]["float"]) if isinstance(model["xip"], dict) else float(model["xip"])
        r = g.middle(xi, xip)
        return (not Req(2 * r, xi + xip) or (xi < xip and not (xi < r < xip)), {"xi": xi, "xip": xip, "native": r})


class MiddleAbstract(FunctionContract):
    """contract used at call sites of `middle`: an abstract point MID(x, y) strictly inside the gap"""
    prop = "C13"
    name = "middle(abstract)"

    def __init__(self, target):
        self.target = target

    def requires(self, xi=None, xip=None, **kw):
        return xi < xip

    def ensures(self, result, xi=None, xip=None, **kw):
        return {"def": result == MID(xi, xip), "inside": And(xi < result, result < xip)}

    def modular_result(self, vc, **kw):
        return vc.fresh("mid", "r")


def concrete(v):
    from pyvc.sym import concrete_value
    return concrete_value(v) if is_sym(v) else v


def inv_at(ax, old, k, J):
    """single-index form of the insertion invariant (J arbitrary but fixed): no quantifier needed, it is inductive by itself"""
    n = old.length
    return And(Implies(And(J >= 0, J < k), And(ax.raw(2 * J) == old.raw(J), ax.raw(2 * J + 1) == MID(old.raw(J), old.raw(J + 1)))),
               Implies(And(J >= k, J < n), ax.raw(k + J) == old.raw(J)))


def refine_invariant(L, g):
    key = ("old", concrete(L.kth_axis))
    if key not in g:
        g[key] = L.axis            # first evaluation = loop entry: the axis before any insertion
    old, ax, k = g[key], L.axis, L._i
    n = old.length
    return And(ax.length == n + k, *[inv_at(ax, old, k, J) for J in g["Js"]])


class Refine(FunctionContract):
    """CTMCGrid.refine on axes of symbolic length n >= 3 (dimension 1 and 2, shared-axis storage [axis]*d).

    Quantified statements are proved in skolemised form: I is an arbitrary index of the refined axis, J = I div 2 the
    old gap it falls in; the invariant is carried for the instances J, J+1, o, o-1 (o = origin index), 0 and n-1.
    """
    prop = "C13"
    target = SP + "CTMCGrid.refine"
    cases = (1, 2)

    def __init__(self):
        self.name = "CTMCGrid.refine"
        self.loops = {1: LoopSpec(refine_invariant, index="_i")}
        self.mid = MiddleAbstract(SP + "CTMCGrid.middle.register[float]")
        self.modular = (self.mid,)

    def setup(self, vc, d):
        ax = vc.seq("axis", "r", min_len=3)
        n = ax.length
        h, o = vc.real("h"), vc.int("origin")
        I = vc.int("I")
        J = I // 2
        vc.assume(And(h > 0, o >= 1, o <= n - 2, I >= 0, I < 2 * n - 2))
        Js = [J, J + 1, o, o - 1, 0, n - 1, n - 2]
        vc.assume(increasing(ax))
        # instances of the precondition `strictly increasing` at the tracked indices
        for j in Js:
            vc.assume(Implies(And(j >= 0, j < n - 1), ax.raw(j) < ax.raw(j + 1)))
        vc.assume(And(ax.raw(o) == 0, ax.raw(o - 1) == -h, ax.raw(o + 1) == h))
        # contract of the grid's `middle`, for all arguments (proved for the arithmetic middle in ArithmeticMiddle)
        x, y = z3.Real("mx"), z3.Real("my")
        vc.assume(Sym(z3.ForAll([x, y], z3.Implies(x < y, z3.And(x < MIDF(x, y), MIDF(x, y) < y)), patterns=[MIDF(x, y)]), "b"))
        grid = vc.obj(SP + "CTMCGrid", axes=[ax] * d, dimension=d, h=h,
                      origin_coordinate=vc.new(GR + "Coordinates", o if d == 1 else [o] * d),
                      truncations=[(ax.raw(0), ax.raw(n - 1))] * d)
        g = vc.ghost
        g["ax0"], g["h0"], g["o0"], g["d"], g["I"], g["J"], g["Js"] = ax, h, o, d, I, J, Js
        return dict(self=grid)

    def ensures(self, result, self_=None):
        from pyvc import ctx
        g = ctx.PATH.ghost
        old, h0, o0, d, I, J = g["ax0"], g["h0"], g["o0"], g["d"], g["I"], g["J"]
        n = old.length
        out = {}
        ov = self_.fields["origin_coordinate"].fields["value"]
        out["h-halved"] = 2 * self_.fields["h"] == h0
        out["origin-index-doubled"] = (ov == 2 * o0) if d == 1 else And(*[c == 2 * o0 for c in ov])
        out["truncations-unchanged"] = And(*[And(t[0] == old.raw(0), t[1] == old.raw(n - 1)) for t in self_.fields["truncations"]])
        for kk, new in enumerate(self_.fields["axes"]):
            p = f"axis{kk}:"
            if not isinstance(new, SymSeq):
                out[p + "is-array"] = False
                continue
            out[p + "length-2n-1"] = new.length == 2 * n - 1
            out[p + "old-states-at-twice-their-index"] = And(new.raw(2 * J) == old.raw(J), new.raw(2 * J + 2) == old.raw(J + 1))
            out[p + "one-new-state-per-gap-at-the-grid's-own-middle"] = new.raw(2 * J + 1) == MID(old.raw(J), old.raw(J + 1))
            out[p + "new-state-strictly-inside-the-gap"] = And(old.raw(J) < new.raw(2 * J + 1), new.raw(2 * J + 1) < old.raw(J + 1))
            out[p + "strictly-increasing"] = new.raw(I) < new.raw(I + 1)
            out[p + "origin-is-zero"] = new.raw(2 * o0) == 0
            out[p + "origin-neighbours-are-the-middles-of-the-old-central-gaps"] = And(new.raw(2 * o0 + 1) == MID(0, h0), new.raw(2 * o0 - 1) == MID(-h0, 0))
            out[p + "end-points-are-the-truncations"] = And(new.raw(0) == old.raw(0), new.raw(new.length - 1) == old.raw(n - 1))
        return out

    def replay(self, model, clause, case):
        from rpylib.grid.spatial import CTMCUniformGrid
        g = CTMCUniformGrid.create_from_fixed_nb_of_points(h=0.25, nb_of_points=7, dimension=case)
        old = [a.copy() for a in g.axes]
        o0, h0, tr = g.origin_coordinate.value, g.h, list(g.truncations)
        g.refine()
        bad = False
        for a, b in zip(old, g.axes):
            bad |= len(b) != 2 * len(a) - 1 or not np.allclose(b[::2], a) or not np.allclose(b[1::2], 0.5 * (a[:-1] + a[1:])) or not np.all(np.diff(b) > 0)
        oc = g.origin_coordinate.value
        bad |= (oc != 2 * o0) if case == 1 else any(c != 2 * o for c, o in zip(oc, o0))
        bad |= g.h != h0 / 2 or list(g.truncations) != tr
        return (bool(bad), {"old_axis": old[0].tolist(), "new_axis": g.axes[0].tolist(), "h": g.h, "origin": str(oc)})


UNITS = [ArithmeticMiddle(), Refine()]
ASSUMPTIONS = ["A1: floats are mathematical reals", "np.insert / np.concatenate on arrays of symbolic length are modelled as array lambdas (library model)"]
TRUSTED_BASE = ["z3 5.1 (LRA + arrays + quantifiers with explicit instances)", "pyvc interpreter + numpy models"]
BOUNDED = []
