"""Native model battery shared by replays and bounded stand-ins (real rpylib objects)."""
import numpy as np


def models(which=("hem", "merton", "vg", "cgmy", "cgmy_fv")):
    from rpylib.model.utils import create_exponential_of_levy_model, ModelType
    from rpylib.model.levymodel.mixed.merton import MertonParameters, ExponentialOfMertonModel
    from rpylib.model.levymodel.purejump.variancegamma import VGParameters, ExponentialOfVarianceGammaModel
    out = {}
    spot, r, d = 100.0, 0.05, 0.02
    if "hem" in which:
        out["hem"] = create_exponential_of_levy_model(ModelType.HEM)(spot=spot, r=r, d=d, sigma=0.10, p=0.6, eta1=25.0, eta2=40.0, intensity=5.0)
    if "merton" in which:
        out["merton"] = ExponentialOfMertonModel(spot=spot, r=r, d=d, parameters=MertonParameters(sigma=0.10, intensity=5.0, mu_j=0.01, sigma_j=0.05))
    if "vg" in which:
        out["vg"] = ExponentialOfVarianceGammaModel(spot=spot, r=r, d=d, parameters=VGParameters(sigma=0.1, nu=0.02, theta=0.1))
    if "cgmy" in which:
        out["cgmy"] = create_exponential_of_levy_model(ModelType.CGMY)(spot=spot, r=r, d=d, c=0.04945, g=10.0, m=8.0, y=1.1)
    if "cgmy_fv" in which:
        out["cgmy_fv"] = create_exponential_of_levy_model(ModelType.CGMY)(spot=spot, r=r, d=d, c=0.5, g=10.0, m=8.0, y=0.5)
    return out


def copula_model(dim=2, kind="clayton", margins="hem"):
    from rpylib.model.levycopulamodel import LevyCopulaModel
    from rpylib.distribution.levycopula import ClaytonCopula, IndependentComponentsCopula, DependentComponentsCopula
    from rpylib.model.levymodel.mixed.hem import HEMParameters, HEMModel
    from rpylib.model.utils import create_levy_model, ModelType
    if margins == "hem":
        ms = [HEMModel(parameters=HEMParameters(sigma=0.1, p=0.6 - 0.1 * k, eta1=25.0 + 5 * k, eta2=40.0 - 5 * k, intensity=5.0)) for k in range(dim)]
    else:
        ms = [create_levy_model(ModelType.CGMY)(c=0.1 + 0.05 * k, g=10.0, m=8.0 + k, y=0.5) for k in range(dim)]
    cop = {"clayton": lambda: ClaytonCopula(theta=0.7, eta=0.3), "independent": IndependentComponentsCopula,
           "dependent": DependentComponentsCopula}[kind]()
    return LevyCopulaModel(models=ms, copula=cop)


def wf_axis(ax, o, h, tol=1e-12):
    ax = np.asarray(ax, dtype=float)
    return bool(np.all(np.diff(ax) > 0) and 1 <= o < len(ax) - 1 and abs(ax[o]) <= tol and abs(ax[o - 1] + h) <= tol * 10 + 1e-12 and abs(ax[o + 1] - h) <= 1e-12)


def chain_mean_defect(model, grid, tol=1e-6):
    """native oracle for C04: |(process drift + sum_k x_k rate_k - model drift) - Levy-Khintchine mean of the truncated process|,
    the latter from quadrature of the model's own density in the model's own representation."""
    from scipy.integrate import quad
    from rpylib.process.markovchain.markovchain import MarkovChainProcess
    from rpylib.distribution.sampling import SamplingMethod
    from rpylib.distribution.samplingfactory import create_q_vector
    from rpylib.product.product import Product
    from rpylib.product.underlying import Spot
    from rpylib.product.payoff import Forward
    t = model.levy_triplet
    rep, a0, nu = t.representation.name, t.a, t.nu
    l, r = grid.truncations[0]
    f = lambda x: x * float(nu(x))
    Tm = quad(f, l, -1, limit=200)[0] if l < -1 else 0.0
    Tp = quad(f, 1, r, limit=200)[0] if r > 1 else 0.0
    T = Tm + Tp
    fv = nu.jump_of_finite_variation()
    K = None
    if rep in ("ZERO",) or (rep == "TILDE" and fv):
        K = quad(f, max(-1, l), 0, limit=200)[0] + quad(f, 0, min(1, r), limit=200)[0]
    mean = {"CENTER": lambda: a0, "ONEONE": lambda: a0 + T, "ZERO": lambda: a0 + K + T, "TILDE": lambda: (a0 + K + T) if fv else a0 + T}[rep]()
    proc = MarkovChainProcess(model, SamplingMethod.INVERSION, grid)
    proc.initialisation(Product(payoff_underlying=Spot(), payoff=Forward(strike=100.0), maturity=1.0))
    q = create_q_vector(proc.model.levy_triplet.nu, grid)
    chain = float(np.ravel(proc.process_drift())[0]) + float(np.dot(grid.axes[0], q)) - float(np.ravel(model.drift())[0])
    return abs(chain - mean), {"representation": rep, "chain_mean": chain, "truncated_process_mean": mean}
