"""Native model battery shared by replays and bounded stand-ins (real rpylib objects)."""
import numpy as np


def models(which=("hem", "merton", "vg", "cgmy", "cgmy_fv")):
    from rpylib.model.utils import create_exponential_of_levy_model, ModelType
    from rpylib.model.levymodel.mixed.merton import MertonParameters, ExponentialOfMertonModel
    from rpylib.model.levymodel.purejump.variancegamma import VGParameters, ExponentialOfVarianceGammaModel
    out = {}
    spot, r, d = 100.0, 0.05, 0.02
    if "hem" in which:
        out["hem"] = create_exponential_of_levy_model(ModelType.HEM)(spot=spot, r=r, d=d, sigma=0.10, p=0.6, eta1=25.0, eta2=40.0, intensity=5.0)
    if "merton" in which:
        out["merton"] = ExponentialOfMertonModel(spot=spot, r=r, d=d, parameters=MertonParameters(sigma=0.10, intensity=5.0, mu_j=0.01, sigma_j=0.05))
    if "vg" in which:
        out["vg"] = ExponentialOfVarianceGammaModel(spot=spot, r=r, d=d, parameters=VGParameters(sigma=0.1, nu=0.02, theta=0.1))
    if "cgmy" in which:
        out["cgmy"] = create_exponential_of_levy_model(ModelType.CGMY)(spot=spot, r=r, d=d, c=0.04945, g=10.0, m=8.0, y=1.1)
    if "cgmy_fv" in which:
        out["cgmy_fv"] = create_exponential_of_levy_model(ModelType.CGMY)(spot=spot, r=r, d=d, c=0.5, g=10.0, m=8.0, y=0.5)
    return out


def copula_model(dim=2, kind="clayton", margins="hem"):
    from rpylib.model.levycopulamodel import LevyCopulaModel
    from rpylib.distribution.levycopula import ClaytonCopula, IndependentComponentsCopula, DependentComponentsCopula
    from rpylib.model.levymodel.mixed.hem import HEMParameters, HEMModel
    from rpylib.model.utils import create_levy_model, ModelType
    if margins == "hem":
        ms = [HEMModel(parameters=HEMParameters(sigma=0.1, p=0.6 - 0.1 * k, eta1=25.0 + 5 * k, eta2=40.0 - 5 * k, intensity=5.0)) for k in range(dim)]
    else:
        ms = [create_levy_model(ModelType.CGMY)(c=0.1 + 0.05 * k, g=10.0, m=8.0 + k, y=0.5) for k in range(dim)]
    cop = {"clayton": lambda: ClaytonCopula(theta=0.7, eta=0.3), "independent": IndependentComponentsCopula,
           "dependent": DependentComponentsCopula}[kind]()
    return LevyCopulaModel(models=ms, copula=cop)


def wf_axis(ax, o, h, tol=1e-12):
    ax = np.asarray(ax, dtype=float)
    return bool(np.all(np.diff(ax) > 0) and 1 <= o < len(ax) - 1 and abs(ax[o]) <= tol and abs(ax[o - 1] + h) <= tol * 10 + 1e-12 and abs(ax[o + 1] - h) <= 1e-12)
