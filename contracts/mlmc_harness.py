"""Native scripted multilevel-engine harness (bounded stand-in shared by C05, C06, C08).

The REAL multilevel Engine and a REAL CouplingMarkovChain (HEM model, coarse grid) are driven by
 - a counting payoff: the k-th payoff evaluation of the run returns the unique value k (so every stored row identifies
   the sample it came from; an all-zero row is an unsimulated placeholder), with r = 0 so that df = 1, and
 - a scripted convergence-criteria object whose compute_mc_paths / criteria follow a given history.
"""
import copy
import itertools

import numpy as np


class Counter:
    def __init__(self):
        self.k = 0

    def __call__(self, underlying):
        self.k += 1
        return float(self.k)


class Script:
    """scripted criteria: `plans[p]` = (Ns vector for pass p (padded/truncated to the current number of levels), converged?)"""

    def __init__(self, plans, tail=None):
        self.plans = list(plans)
        self.tail = tail
        self.pass_no = 0
        self.log = []

    def compute_mc_paths(self, rmse, vl, cl):
        n = len(vl)
        plan = self.plans[min(self.pass_no, len(self.plans) - 1)][0]
        Ns = np.array([plan[min(i, len(plan) - 1)] for i in range(n)], dtype=int)
        self.log.append(("Ns", self.pass_no, Ns.tolist()))
        return Ns

    def criteria(self, alpha, ml, rmse):
        conv = self.plans[min(self.pass_no, len(self.plans) - 1)][1]
        self.log.append(("criteria", self.pass_no, conv))
        self.log.append(("alpha", self.pass_no, alpha))
        self.pass_no += 1
        return conv


def build(initial_level=2, maximum_level=4, initial_mc_paths=6, plans=(([8], False), ([8], True)), seed=None, h=0.25, fixed=False, spot_payoff=False, rates=(1.0, 1.5, 1.0), constant_payoff=False):
    from rpylib.model.levymodel.mixed.hem import HEMParameters, ExponentialOfHEMModel
    from rpylib.grid.spatial import CTMCUniformGrid
    from rpylib.process.coupling.couplingmarkovchain import CouplingMarkovChain
    from rpylib.distribution.sampling import SamplingMethod
    from rpylib.montecarlo.configuration import ConfigurationMultiLevel, ConvergenceRates
    from rpylib.montecarlo.multilevel.criteria import ConvergenceCriteria
    from rpylib.montecarlo.multilevel.engine import Engine
    from rpylib.product.product import Product
    from rpylib.product.underlying import Spot
    from rpylib.product.payoff import PayoffOnTheFly
    model = ExponentialOfHEMModel(spot=100.0, r=0.0, d=0.0, parameters=HEMParameters(sigma=0.1, p=0.6, eta1=25.0, eta2=40.0, intensity=2.0))
    grid = CTMCUniformGrid(h=h, model=model)
    process = CouplingMarkovChain(model=model, method=SamplingMethod.INVERSION, grid=grid)
    counter = Counter()
    # spot_payoff: the payoff is the terminal spot itself (continuous in the variates: equal rows <=> shared variates)
    product = Product(payoff_underlying=Spot(), payoff=PayoffOnTheFly((lambda u: 1.0) if constant_payoff else ((lambda u: float(np.ravel(u)[0])) if spot_payoff else counter)), maturity=0.5)
    script = Script(plans)
    crit = ConvergenceCriteria(criteria=script.criteria, compute_mc_paths=script.compute_mc_paths)
    cfg = ConfigurationMultiLevel(convergence_rates=ConvergenceRates(alpha=rates[0], beta=rates[1], gamma=rates[2]), convergence_criteria=crit, initial_level=initial_level,
                                  maximum_level=maximum_level, initial_mc_paths=initial_mc_paths, seed=seed, nb_of_processes=1)
    eng = Engine(configuration=cfg, coupling_process=process)
    return eng, product, counter, script


def run(**kw):
    fixed = kw.pop("fixed", False)
    eng, product, counter, script = build(**kw)
    stats = eng.price_with_constant_mc_paths_and_level(product) if fixed else eng.price(product, rmse=0.01)
    return eng, stats, counter, script


def audit(stats):
    """-> per level: rows, placeholder rows (all zero), duplicated ids, reported Nl, and global facts"""
    res = stats.mlmc_results
    out = []
    seen = []
    for level, mcs in enumerate(stats.mc_statistics):
        rows = mcs._payoff_statistics.stats            # shape (n, 1, 2): fine, coarse
        fine, coarse = rows[:, 0, 0], rows[:, 0, 1]
        placeholders = int(np.sum((fine == 0) & (coarse == 0)))
        ids = [x for x in fine if x != 0] + [x for x in coarse if x != 0]
        seen += ids
        out.append({"level": level, "rows": int(rows.shape[0]), "placeholder_rows": placeholders, "reported_N": int(res.Nl[level]) if level < len(res.Nl) else None,
                    "coarse_all_zero_at_level0": bool(np.all(coarse == 0)) if level == 0 else None,
                    "mean_fine_minus_coarse": float(np.mean(fine - coarse)) if rows.shape[0] else None})
    dup = len(seen) - len(set(seen))
    return out, dup, seen
