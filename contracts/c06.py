"""C06 — sample allocation meets the variance budget; runs stop only on stated criteria.

Deductive: the allocation formula and the stopping test (real bodies, symbolic variances / costs / rmse, 1..3 levels).
The trajectory clauses (never above the maximum level; return only on convergence or at the maximum level) are exercised
on scripted histories of the real engine (bounded).  Unconditional termination is not decidable by contracts: see
MANIFEST not_applicable note inside the C06 entry.
"""
import numpy as np
import z3

from pyvc.contract import FunctionContract, Lemma, VC, Req
from pyvc.sym import And, Or, Not, Implies, If, Eq, compare, smax, smin, is_sym, Sym, lift, as_real_term, as_int_term, INF, PyRaise

PROPERTY_ID = "C06"
LEVEL = "proof"
CR = "rpylib.montecarlo.multilevel.criteria:"


class Allocation(Lemma):
    """compute_mc_paths_giles(rmse, V, C): with the returned sizes, sum_l V_l / N_l <= (variance share) * rmse^2, where the
    variance share is what the single-level case exhibits (N = ceil(V / (share * rmse^2)))."""
    prop = "C06"
    cases = ((1, "all costs positive"), (2, "all costs positive"), (2, "a zero-cost level"))

    def __init__(self):
        self.name = "property:allocation-meets-the-variance-budget"

    def prove(self, vc, case):
        n, regime = case
        nm = f"{self.name}[levels={n}]"
        rmse = vc.real("rmse")
        V = np.array(vc.reals("V", n), dtype=object)
        C = np.array(vc.reals("C", n), dtype=object)
        vc.assume(And(rmse > 0, *[v > 0 for v in V], *[c >= 0 for c in C]))
        if regime == "all costs positive":
            vc.assume(And(*[c > 0 for c in C]))
        else:
            vc.assume(Or(*[c == 0 for c in C]))
        Ns = vc.call(CR + "compute_mc_paths_giles", rmse, V, C)
        Ns = list(np.ravel(np.asarray(Ns, dtype=object)))
        share = Sym(z3.Q(3, 4), "r")        # 1 - theta, the variance share of rmse^2 the allocation aims at
        B = share * rmse * rmse
        if regime == "all costs positive":
            vc.check(nm + "::sizes-are-positive-integers-when-variances-and-costs-are-positive", And(*[N >= 1 for N in Ns]))
        else:
            vc.assume(And(*[N >= 1 for N in Ns]))
        total = sum((v / N for v, N in zip(V, Ns)), 0)
        vc.check(nm + f"::estimator-variance-within-the-variance-share[{regime}]", total <= B)

    def replay(self, model, clause, case):
        n = case[0]
        from rpylib.montecarlo.multilevel.criteria import compute_mc_paths_giles
        f = lambda v: float(v["float"]) if isinstance(v, dict) else float(v)
        rmse = f(model.get("rmse", 0.1))
        zero = "zero-cost" in clause
        V = np.array([f(x) for x in model.get("V", [1.0, 0.5, 0.25][:n])], dtype=float)
        C = np.array([f(x) for x in model.get("C", ([0.0, 2.0, 4.0] if zero else [1.0, 2.0, 4.0])[:n])], dtype=float)
        if zero and not np.any(C == 0):
            C[0] = 0.0
        if not zero and np.any(C <= 0):
            return (False, {"note": "counter-model outside the clause's regime"})
        V = np.maximum(V, 1e-3)
        with np.errstate(all="ignore"):
            Ns = compute_mc_paths_giles(rmse, V, C)
        if np.any(Ns < 1):
            return (False, {"Ns": Ns.tolist()})
        tot = float(np.sum(V / Ns))
        return (tot > 0.75 * rmse ** 2 * (1 + 1e-9), {"rmse": rmse, "V": V.tolist(), "C": C.tolist(), "Ns": Ns.tolist(), "sum_V_over_N": tot, "budget_0.75_rmse2": 0.75 * rmse ** 2})


class BudgetSplit(Lemma):
    """squared bias tolerance of the stopping test + variance share of the allocation <= rmse^2: if criteria_giles accepts
    (remaining bias `rem` within tolerance) and the sizes come from compute_mc_paths_giles, then rem^2 + V/N <= rmse^2."""
    prop = "C06"
    name = "property:bias-and-variance-shares-fit-in-rmse-squared"

    def prove(self, vc, case):
        rmse, alpha = vc.real("rmse"), 1
        ml = np.array(vc.reals("ml", 3), dtype=object)
        V, C = vc.real("V"), vc.real("C")
        vc.assume(And(rmse > 0, V > 0, C > 0, *[m >= 0 for m in ml]))
        conv = vc.call(CR + "criteria_giles", alpha, ml, rmse)
        Ns = vc.call(CR + "compute_mc_paths_giles", rmse, np.array([V], dtype=object), np.array([C], dtype=object))
        N = np.ravel(np.asarray(Ns, dtype=object))[0]
        rem = smax(ml[2], ml[1] / 2, ml[0] / 4) / (2 - 1)          # alpha = 1
        vc.check(self.name + "::accepted-run-has-mse-within-rmse-squared", Implies(conv, rem * rem + V / N <= rmse * rmse))

    def replay(self, model, clause, case):
        from rpylib.montecarlo.multilevel.criteria import compute_mc_paths_giles, criteria_giles
        rmse = 0.1
        ml = np.array([0.0, 0.0, 0.07])
        V, C = np.array([0.75]), np.array([1.0])
        conv = bool(criteria_giles(1.0, ml, rmse))
        N = compute_mc_paths_giles(rmse, V, C)[0]
        mse = 0.07 ** 2 + V[0] / N
        return (conv and mse > rmse ** 2, {"rmse": rmse, "remaining_bias": 0.07, "accepted": conv, "V": 0.75, "N": int(N), "bias2_plus_variance": float(mse), "rmse2": rmse ** 2})


class StoppingTest(Lemma):
    """criteria_giles on 1, 2, 3 and 4 levels (real body, alpha = 1): it returns a verdict (no exception) and accepts exactly
    when the largest extrapolated correction max(m_L, m_{L-1}/2, m_{L-2}/4) over the levels that EXIST is within the bias
    tolerance sqrt(theta) rmse = rmse / 2 times (2^alpha - 1): the share theta = 0.25 of rmse^2 that the allocation (variance
    share 0.75 rmse^2, lemma allocation-meets-the-variance-budget) leaves to the squared bias."""
    prop = "C06"
    cases = (1, 2, 3, 4)
    name = "property:stopping-test"

    def prove(self, vc, n):
        nm = f"{self.name}[{n} level(s)]"
        rmse = vc.real("rmse")
        ml = np.array(vc.reals("ml", n), dtype=object)
        vc.assume(And(rmse > 0, *[m >= 0 for m in ml]))
        from pyvc.sym import PyRaise
        try:
            conv = vc.call(CR + "criteria_giles", 1, ml, rmse)
        except PyRaise as e:
            vc.check(nm + f"::returns-a-verdict[{e.exc_type}]", False)
            return
        terms = [ml[n - 1 - k] / 2 ** k for k in range(min(3, n))]
        rem = smax(*terms) if len(terms) > 1 else terms[0]
        # rmse / 2: compare squares (both sides non-negative)
        vc.check(nm + "::accepts-exactly-when-the-extrapolated-correction-is-within-tolerance", conv == (4 * rem * rem <= rmse * rmse))

    def replay(self, model, clause, n):
        from rpylib.montecarlo.multilevel.criteria import criteria_giles
        ml = np.array([0.04, 0.02, 0.01, 0.005][:n])
        try:
            v = bool(criteria_giles(1.0, ml, 0.1))
        except Exception as e:
            return (True, {"levels": n, "ml": ml.tolist(), "exception": f"{type(e).__name__}: {e}"})
        ml = ml * 1.5                  # (0.06, ...): between the two candidate tolerances rmse/2 = 0.05 and rmse/sqrt(2) = 0.0707
        v = bool(criteria_giles(1.0, ml, 0.1))
        want = max(ml[n - 1 - k] / 2 ** k for k in range(min(3, n))) <= 0.1 / 2
        return (v != want, {"levels": n, "ml": ml.tolist(), "verdict": v, "expected": bool(want)})


class Allocation3(Allocation):
    """three levels (slow nonlinear query): thorough tier only"""
    tier = "thorough"
    cases = ((3, "all costs positive"), (3, "a zero-cost level"))

    def __init__(self):
        super().__init__()
        self.name = "property:allocation-meets-the-variance-budget"


class ConfiguredLevels(FunctionContract):
    """ConfigurationMultiLevel.__init__ (real body): "the configured maximum" the engine reads IS the value the caller gave --
    initial level, maximum level and initial number of samples are stored unchanged for every admissible value, 0 included
    (a single-level configuration maximum_level = 0 is a value, not an absent argument), and initial_level > maximum_level
    is rejected."""
    prop = "C06"
    target = "rpylib.montecarlo.configuration:ConfigurationMultiLevel.__init__"
    name = "ConfigurationMultiLevel.__init__"
    raises = {"ValueError": lambda initial_level=None, maximum_level=None, **kw: initial_level > maximum_level}

    def setup(self, vc, case):
        L0, Lmax, N0 = vc.int("initial_level"), vc.int("maximum_level"), vc.int("initial_mc_paths")
        vc.assume(And(L0 >= 0, Lmax >= 0, N0 >= 1))
        return dict(self=vc.obj("rpylib.montecarlo.configuration:ConfigurationMultiLevel"), initial_level=L0, maximum_level=Lmax, initial_mc_paths=N0)

    def ensures(self, result, self_=None, initial_level=None, maximum_level=None, initial_mc_paths=None, **kw):
        f = self_.fields
        return {"maximum-level-is-the-configured-one": compare(f.get("maximum_level"), maximum_level, "=="),
                "initial-level-is-the-configured-one": compare(f.get("initial_level"), initial_level, "=="),
                "initial-sample-size-is-the-configured-one": compare(f.get("initial_mc_paths"), initial_mc_paths, "==")}

    def replay(self, model, clause, case):
        from rpylib.montecarlo.configuration import ConfigurationMultiLevel
        m = model or {}
        L0, Lmax, N0 = int(m.get("initial_level", 0)), int(m.get("maximum_level", 0)), int(m.get("initial_mc_paths", 7))
        try:
            c = ConfigurationMultiLevel(initial_level=L0, maximum_level=Lmax, initial_mc_paths=N0)
        except ValueError as e:
            return (L0 <= Lmax, {"initial_level": L0, "maximum_level": Lmax, "exception": str(e)})
        got = [c.initial_level, c.maximum_level, c.initial_mc_paths]
        return (got != [L0, Lmax, N0], {"configured (initial, maximum, samples)": [L0, Lmax, N0], "stored": got})


UNITS = [Allocation(), BudgetSplit(), StoppingTest(), Allocation3(), ConfiguredLevels()]


def LATE_UNITS():
    # "never simulates a level above the configured maximum, returns only when the bias test passes or the maximum level has
    # been reached, after every level has at least (within the 1 % rule) its optimal number of samples": the adaptive loop of
    # Engine.price under an inductive invariant (contract kept with the sample accounting, c05)
    from contracts import c05
    return [c05.PriceLoop()]

ASSUMPTIONS = ["A1: floats are mathematical reals; sqrt is the real square root", "estimated variances and costs are arbitrary non-negative reals"]
TRUSTED_BASE = ["z3 5.1 (NRA)", "pyvc interpreter + numpy models"]


class Trajectories:
    """B2 (native, bounded): scripted histories of the real engine (see contracts/mlmc_harness.py): no level above the
    configured maximum is ever simulated; the run returns only after the stopping test accepted or at the maximum level;
    at return every level holds at least its last requested size (within the 1 % rule)."""
    name = "bounded:trajectories"
    tier = "quick"

    def run(self, tier, seed):
        from contracts import mlmc_harness as H
        from contracts.c05 import HISTORIES
        import warnings
        hist = {k: v for k, v in HISTORIES.items() if not v.get("fixed")}
        hist["added-level-needs-no-sample"] = dict(initial_level=2, maximum_level=5, initial_mc_paths=5, plans=(([5, 5, 5, 0], False), ([5, 5, 5, 0], False)))
        hist["never-converges"] = dict(initial_level=2, maximum_level=4, initial_mc_paths=3, plans=(([3], False), ([4], False), ([4], False), ([5], False), ([5], False)))
        # a small level short by more than 1 % of ITS OWN size while the total shortfall is below 1 % of the total
        hist["one-level-short-by-more-than-1-percent-of-itself"] = dict(initial_level=2, maximum_level=4, initial_mc_paths=200,
                                                                          plans=(([200, 200, 204], True), ([200, 200, 204], True)))
        hist["short-level-then-new-level"] = dict(initial_level=2, maximum_level=3, initial_mc_paths=100,
                                                    plans=(([100, 100, 103], False), ([100, 100, 103, 6], False), ([100, 100, 103, 6], True)))
        ev, viol, samples = 0, {}, []
        # rates regressed (none given) on a payoff whose level corrections are exactly zero: log2(0) = -inf in the regression;
        # the rates the stopping test receives must stay finite, and the configuration's rates must still be "not given" afterwards
        ev += 1
        with warnings.catch_warnings():
            warnings.simplefilter("ignore")
            try:
                eng, stats, counter, script = H.run(initial_level=2, maximum_level=3, initial_mc_paths=4, plans=(([4], False), ([4], True)), rates=(None, None, None), constant_payoff=True)
                alphas = [e[2] for e in script.log if e[0] == "alpha"]
                cr = eng.configuration.convergence_rates
                if not alphas or not all(np.isfinite(a) for a in alphas):
                    viol.setdefault("nan", {"obligation": f"{self.name}::regressed-rates-are-finite", "bounded": self.name, "witness": {"alphas_passed_to_the_stopping_test": [float(a) for a in alphas]}})
                if not (cr.alpha is None and cr.beta is None and cr.gamma is None):
                    viol.setdefault("frame", {"obligation": f"{self.name}::configured-rates-untouched-by-a-run", "bounded": self.name, "witness": {"rates_after_the_run": [cr.alpha, cr.beta, cr.gamma]}})
            except Exception as e:
                viol.setdefault("nan", {"obligation": f"{self.name}::regressed-rates-are-finite", "bounded": self.name, "witness": {"exception": f"{type(e).__name__}: {e}"}})
        # the stopping test accepts on early estimates (while sizes are still growing) and rejects on the final ones
        hist["accepted-early-rejected-on-the-final-estimates"] = dict(initial_level=2, maximum_level=4, initial_mc_paths=10,
                                                                        plans=(([10, 10, 30], True), ([10, 10, 30], False), ([10, 10, 30, 5], False), ([10, 10, 30, 5], False), ([10, 10, 30, 5, 5], False), ([10, 10, 30, 5, 5], False)))
        hist["initial-level-above-the-maximum"] = dict(initial_level=3, maximum_level=2, initial_mc_paths=3, plans=(([3], True), ([3], True)))
        for hname, kw in hist.items():
            ev += 1
            with warnings.catch_warnings():
                warnings.simplefilter("ignore")
                try:
                    eng, stats, counter, script = H.run(**dict(kw))
                except ValueError as e:
                    if hname == "initial-level-above-the-maximum":
                        continue          # refusing an inconsistent configuration is a correct way never to exceed the maximum
                    raise
            levels = len(stats.mc_statistics)
            max_level = kw["maximum_level"]
            crit = [e for e in script.log if e[0] == "criteria"]
            # the verdict that counts is the one of a stopping test evaluated AFTER the last size update
            kinds = [e[0] for e in script.log if e[0] in ("criteria", "Ns")]
            tested_last = bool(kinds) and kinds[-1] == "criteria"
            accepted = bool(crit and crit[-1][2]) and tested_last
            last_ns = [e for e in script.log if e[0] == "Ns"][-1][2]
            Nl = [int(x) for x in stats.mlmc_results.Nl]
            info = {"history": hname, "levels_simulated": levels, "maximum_level": max_level, "stopping_test_accepted_last": accepted, "N_l": Nl, "last_optimal_sizes": last_ns}
            if len(samples) < 3:
                samples.append(info)
            if levels - 1 > max_level:
                viol.setdefault("max", {"obligation": f"{self.name}::never-above-the-maximum-level", "bounded": self.name, "witness": info})
            if not accepted and levels - 1 < max_level:
                viol.setdefault(("ret", hname), {"obligation": f"{self.name}::returns-only-on-acceptance-or-at-the-maximum-level[{hname}]", "bounded": self.name, "witness": info})
            if accepted and any(ns - n > 0.01 * n for ns, n in zip(last_ns, Nl)):
                viol.setdefault("opt", {"obligation": f"{self.name}::every-level-has-its-optimal-size-within-1-percent", "bounded": self.name, "witness": info})
        return {"name": self.name, "evaluations": ev, "distinct_nontrivial": ev, "violations": list(viol.values()), "samples": samples,
                "bound": f"{len(hist)} scripted histories"}

    def replay(self, rec):
        r = self.run("quick", 0)
        hit = [v for v in r["violations"] if v["obligation"] == rec["obligation"]]
        return (bool(hit), hit[0]["witness"] if hit else {})


BOUNDED = [Trajectories()]
