"""C17 — payoffs and underlyings are pure functions of the path obeying static identities.

All scalar clauses are loop-free, full-domain (every real strike / underlying value / barrier / notional):
np.maximum becomes if-then-else, the only transcendental facts are the exp/log inverse pair and monotonicity.
Path clauses are proved for every path of length n <= N_PATH with symbolic values (complete in the values,
bounded in the length; labelled in the evidence).
"""
import math

import numpy as np

from pyvc.contract import FunctionContract, Lemma, VC, Req
from pyvc.sym import And, Or, Not, Implies, If, Eq, compare, smax, smin, is_sym, Sym, INF

PROPERTY_ID = "C17"
LEVEL = "proof"
PAY = "rpylib.product.payoff:"
UND = "rpylib.product.underlying:"
PRO = "rpylib.product.product:"
PR = "rpylib.process.process:"
N_PATH = 4


def pos(x):
    return If(x > 0, x, 0) if is_sym(x) else max(x, 0)


def native_mod(name):
    import importlib
    return importlib.import_module(name)


def fl(v):
    """model value -> float"""
    if isinstance(v, dict):
        return float(v.get("float", 0.0))
    return float(v)


class StaticIdentities(Lemma):
    """call - put = forward; call spread / butterfly = their call combinations; digital call + put = 1;
    notional scales linearly.  Real evaluate() bodies, objects built by the real constructors."""
    prop = "C17"
    name = "property:static-identities"

    def prove(self, vc, case):
        u, k = vc.real("underlying"), vc.real("strike")
        CALL, PUT = vc.enum(PAY + "PayoffType", "CALL"), vc.enum(PAY + "PayoffType", "PUT")
        n = self.name
        call, put, fwd = vc.new(PAY + "Vanilla", k, CALL), vc.new(PAY + "Vanilla", k, PUT), vc.new(PAY + "Forward", k)
        c, p, f = vc.method(call, "evaluate", u), vc.method(put, "evaluate", u), vc.method(fwd, "evaluate", u)
        vc.check(n + "::call-is-positive-part", c == pos(u - k))
        vc.check(n + "::put-is-positive-part", p == pos(k - u))
        vc.check(n + "::forward", f == u - k)
        vc.check(n + "::call-minus-put-is-forward", c - p == f)
        # payoff objects are callable: __call__ forwards to evaluate
        vc.check(n + "::call-operator-is-evaluate", vc.interp.call(call, [u], {}) == c)
        dc, dp = vc.new(PAY + "Digital", k, CALL), vc.new(PAY + "Digital", k, PUT)
        vc.check(n + "::digital-call-plus-put-is-one", vc.method(dc, "evaluate", u) + vc.method(dp, "evaluate", u) == 1)
        vc.check(n + "::digital-call-is-indicator", vc.method(dc, "evaluate", u) == If(u > k, 1.0, 0.0))
        # notional
        notional = vc.real("notional")
        prod = vc.new(PRO + "Product", vc.new(UND + "Spot"), call, 1.0, notional)
        vc.check(n + "::product-is-notional-times-payoff", vc.interp.call(prod, [u], {}) == notional * c)

    def replay(self, model, clause, case):
        pay = native_mod("rpylib.product.payoff")
        u, k = fl(model.get("underlying", 1.0)), fl(model.get("strike", 1.0))
        c = float(pay.Vanilla(k, pay.PayoffType.CALL).evaluate(u))
        p = float(pay.Vanilla(k, pay.PayoffType.PUT).evaluate(u))
        f = float(pay.Forward(k).evaluate(u))
        dc = pay.Digital(k, pay.PayoffType.CALL).evaluate(u) + pay.Digital(k, pay.PayoffType.PUT).evaluate(u)
        bad = (not Req(c, max(u - k, 0.0))) or (not Req(p, max(k - u, 0.0))) or (not Req(c - p, f)) or (not Req(f, u - k)) or dc != 1
        return (bad, {"u": u, "k": k, "call": c, "put": p, "forward": f, "digital_sum": dc})


class Spreads(Lemma):
    prop = "C17"
    name = "property:call-spread-and-butterfly"

    def prove(self, vc, case):
        u = vc.real("underlying")
        k1, k2, k3 = vc.real("k1"), vc.real("k2"), vc.real("k3")
        vc.assume(And(k1 < k2, k2 < k3))
        n = self.name
        cs = vc.new(PAY + "CallSpread", k1, k2)
        v = vc.method(cs, "evaluate", u)
        vc.check(n + "::call-spread-is-call-combination", v == pos(u - k1) - pos(u - k2))
        vc.check(n + "::call-spread-non-negative", v >= 0)
        bf = vc.new(PAY + "Butterfly", k1, k2, k3)
        b = vc.method(bf, "evaluate", u)
        vc.check(n + "::butterfly-is-call-combination", b == pos(u - k1) - 2 * pos(u - k2) + pos(u - k3))
        vc.check(n + "::butterfly-non-negative[middle strike at or above the mid-point]", Implies(2 * k2 >= k1 + k3, b >= 0))
        vc.check(n + "::butterfly-non-negative[middle strike below the mid-point]", Implies(2 * k2 < k1 + k3, b >= 0))

    def replay(self, model, clause, case):
        pay = native_mod("rpylib.product.payoff")
        u, k1, k2, k3 = (fl(model.get(x, d)) for x, d in (("underlying", 130.0), ("k1", 90.0), ("k2", 95.0), ("k3", 120.0)))
        info = {"u": u, "strikes": [k1, k2, k3]}
        try:
            b = float(pay.Butterfly(k1, k2, k3).evaluate(u))
            cs = float(pay.CallSpread(k1, k2).evaluate(u))
        except Exception as e:
            return (False, {"exception": str(e), **info})
        info.update(butterfly=b, call_spread=cs)
        if "butterfly-non-negative" in clause:
            return (b < 0, info)
        if "call-spread-non" in clause:
            return (cs < 0, info)
        if "butterfly-is" in clause:
            return (not Req(b, max(u - k1, 0) - 2 * max(u - k2, 0) + max(u - k3, 0)), info)
        return (not Req(cs, max(u - k1, 0) - max(u - k2, 0)), info)


class BarrierParity(Lemma):
    """knock-in + knock-out = vanilla for the same barrier event, on every path of length <= N_PATH; and the value on
    a path does not depend on the path evaluated before (the barrier flag is part of the product object)."""
    prop = "C17"
    cases = tuple((d, n) for d in ("UP", "DOWN") for n in range(1, N_PATH + 1))

    def __init__(self):
        self.name = "property:barrier"

    def prove(self, vc, case):
        direction, n = case
        nm = f"{self.name}[{direction},{n}]"
        k, b = vc.real("strike"), vc.real("barrier")
        CALL = vc.enum(PAY + "PayoffType", "CALL")
        BT = lambda x: vc.enum(PAY + "BarrierType", x)
        kin = vc.new(PAY + "Barrier", k, CALL, BT(direction + "_AND_IN"), b)
        kout = vc.new(PAY + "Barrier", k, CALL, BT(direction + "_AND_OUT"), b)
        kout_fresh = vc.new(PAY + "Barrier", k, CALL, BT(direction + "_AND_OUT"), b)
        van = vc.new(PAY + "Vanilla", k, CALL)
        earlier = np.array(vc.reals("earlier_path", n), dtype=object)
        path = np.array(vc.reals("path", n), dtype=object)
        u = path[-1]
        times = list(range(n))
        # history: the same product objects first see another path
        for o in (kin, kout):
            vc.interp.call(vc.interp.getattr(o, "process"), [times, earlier], {})
            vc.method(o, "evaluate", earlier[-1])
        for o in (kin, kout, kout_fresh):
            vc.interp.call(vc.interp.getattr(o, "process"), [times, path], {})
        vi, vo, vf = vc.method(kin, "evaluate", u), vc.method(kout, "evaluate", u), vc.method(kout_fresh, "evaluate", u)
        hit = Or(*[(x > b) if direction == "UP" else (x < b) for x in path])
        vc.check(nm + "::knock-out-is-vanilla-unless-the-path-crosses", vf == If(hit, 0.0, pos(u - k)))
        vc.check(nm + "::knock-in-plus-knock-out-is-vanilla", vi + vo == vc.method(van, "evaluate", u))
        vc.check(nm + "::value-independent-of-earlier-path", vo == vf)

    def replay(self, model, clause, case):
        direction, n = case
        pay = native_mod("rpylib.product.payoff")
        k, b = fl(model.get("strike", 90.0)), fl(model.get("barrier", 120.0))
        earlier = np.array([fl(v) for v in model.get("earlier_path", [130.0] * n)])
        path = np.array([fl(v) for v in model.get("path", [100.0] * n)])
        CALL, BT = pay.PayoffType.CALL, pay.BarrierType
        kin = pay.Barrier(k, CALL, getattr(BT, direction + "_AND_IN"), b)
        kout = pay.Barrier(k, CALL, getattr(BT, direction + "_AND_OUT"), b)
        fresh = pay.Barrier(k, CALL, getattr(BT, direction + "_AND_OUT"), b)
        t = list(range(n))
        for o in (kin, kout):
            o.process(t, earlier)
            o.evaluate(earlier[-1])
        for o in (kin, kout, fresh):
            o.process(t, path)
        vi, vo, vf = float(kin.evaluate(path[-1])), float(kout.evaluate(path[-1])), float(fresh.evaluate(path[-1]))
        van = float(pay.Vanilla(k, CALL).evaluate(path[-1]))
        info = {"strike": k, "barrier": b, "earlier_path": earlier.tolist(), "path": path.tolist(), "knock_in": vi,
                "knock_out_after_earlier_path": vo, "knock_out_fresh_object": vf, "vanilla": van}
        if "independent" in clause:
            return (not Req(vo, vf), info)
        if "plus" in clause:
            return (not Req(vi + vo, van), info)
        hit = any((x > b) if direction == "UP" else (x < b) for x in path)
        return (not Req(vf, 0.0 if hit else max(path[-1] - k, 0.0)), info)


UNITS = [StaticIdentities(), Spreads(), BarrierParity()]
ASSUMPTIONS = ["A1: floats are mathematical reals", "np.maximum(a, b) = if a >= b then a else b elementwise (library model)",
               f"path clauses: every path length n <= {N_PATH} (symbolic values); longer paths are not covered by the proof"]
TRUSTED_BASE = ["z3 5.1 (LRA + uninterpreted exp/log with inverse and monotonicity instances)", "pyvc interpreter + numpy models"]
BOUNDED = []


# ----------------------------------------------------------------- underlyings
def mk_path(vc, name, shape, positive=True):
    """object ndarray of fresh reals (positive spot paths)"""
    size = int(np.prod(shape))
    xs = vc.reals(name, size)
    if positive:
        vc.assume(And(*[x > 0 for x in xs]))
    a = np.empty(size, dtype=object)
    a[:] = xs
    return a.reshape(shape)


def log_of(vc, arr):
    return vc.interp.lib.np_map(vc.interp.lib.m_log, arr)


def same(a, b):
    """formula: two scalar-or-array values are equal"""
    if isinstance(a, np.ndarray) or isinstance(b, np.ndarray):
        A, B = np.asarray(a, dtype=object).reshape(-1).tolist(), np.asarray(b, dtype=object).reshape(-1).tolist()
        if len(A) != len(B):
            return False
        return And(*[same(x, y) for x, y in zip(A, B)])
    if (isinstance(a, float) and math.isinf(a)) or (isinstance(b, float) and math.isinf(b)):
        return (not is_sym(a)) and (not is_sym(b)) and a == b
    return Req(a, b)


def pos_list(vc, name, default):
    """symbolic positive constants in the prover, the default in a native replay"""
    if vc is None:
        return list(default)
    xs = vc.reals(name, len(default))
    vc.assume(And(*[x > 0 for x in xs]))
    return xs


UNDERLYINGS = {
    # name -> (constructor args builder, path shape)
    "Spot": (lambda vc: [], (3,)),
    "Spot2d": (lambda vc: [], (2, 2)),
    "Libors": (lambda vc: [], (2, 2)),
    "LogSpot": (lambda vc: [], (3,)),
    "Performances": (lambda vc: [pos_list(vc, "spots", [2.0, 5.0])], (2, 2)),
    "MaximumOfPerformances": (lambda vc: [pos_list(vc, "spots", [2.0, 5.0])], (2, 2)),
    "NthSpot": (lambda vc: [2], (2, 2)),
    "Indicators": (lambda vc: [pos_list(vc, "thresholds", [2.0, 5.0])], (2, 2)),
    "Mean": (lambda vc: [], (3, 2)),
    "Asian": (lambda vc: [], (3,)),
}


class RepresentationAgreement(Lemma):
    """identity and logarithmic representations give the same underlying value for the same (positive) spot path:
    _value_log(times, log path, log jump path) == value(times, path, jump path); and update(LOG) switches to exactly that."""
    prop = "C17"
    cases = tuple(UNDERLYINGS)

    def __init__(self):
        self.name = "property:representation-agreement"

    def prove(self, vc, case):
        args_fn, shape = UNDERLYINGS[case]
        cls = case.rstrip("2d") if case.endswith("2d") else case
        nm = f"{self.name}[{case}]"
        o = vc.new(UND + cls, *args_fn(vc))
        path, jump = mk_path(vc, "path", shape), mk_path(vc, "jump_path", shape)
        times = [float(i) for i in range(shape[-1])]
        v_id = vc.method(o, "value", times, path, jump)
        v_log = vc.method(o, "_value_log", times, log_of(vc, path), log_of(vc, jump))
        vc.check(nm + "::log-representation-agrees", same(v_id, v_log))
        LOG = vc.enum(PR + "ProcessRepresentation", "LOG")
        IDENT = vc.enum(PR + "ProcessRepresentation", "IDENDITY")
        o2 = vc.new(UND + cls, *args_fn(vc))
        vc.method(o2, "update", LOG)
        vc.check(nm + "::update-LOG-selects-log-representation", same(vc.method(o2, "value", times, log_of(vc, path), log_of(vc, jump)), v_id))
        # sticky switch: LOG then IDENTITY must behave like a fresh (identity) object
        vc.method(o2, "update", IDENT)
        vc.check(nm + "::update-IDENTITY-after-LOG-restores-identity", same(vc.method(o2, "value", times, path, jump), v_id))

    def replay(self, model, clause, case):
        und = native_mod("rpylib.product.underlying")
        PRn = native_mod("rpylib.process.process").ProcessRepresentation
        args_fn, shape = UNDERLYINGS[case]
        cls = case.rstrip("2d") if case.endswith("2d") else case
        size = int(np.prod(shape))
        path = np.array([max(fl(v), 1e-3) for v in model.get("path", [1.0] * size)][:size]).reshape(shape)
        jump = np.array([max(fl(v), 1e-3) for v in model.get("jump_path", [1.0] * size)][:size]).reshape(shape)
        times = [float(i) for i in range(shape[-1])]
        o, o2 = getattr(und, cls)(*args_fn(None)), getattr(und, cls)(*args_fn(None))
        v_id = o.value(times, path, jump)
        info = {"class": cls, "path": path.tolist(), "identity_value": np.asarray(v_id).tolist()}
        if "sticky" in clause or "restores" in clause:
            o2.update(PRn.LOG)
            o2.update(PRn.IDENDITY)
            v = o2.value(times, path, jump)
            info["after_LOG_then_IDENTITY"] = np.asarray(v).tolist()
            return (not np.allclose(v, v_id, rtol=1e-9), info)
        if "selects" in clause:
            o2.update(PRn.LOG)
            v = o2.value(times, np.log(path), np.log(jump))
        else:
            v = o._value_log(times, np.log(path), np.log(jump))
        info["log_value"] = np.asarray(v).tolist()
        return (not np.allclose(v, v_id, rtol=1e-9), info)


UNITS += [RepresentationAgreement()]


class Averages(Lemma):
    """an average lies between the extremes of what it averages (Mean over the assets' final values; Asian over the
    path's observation dates)."""
    prop = "C17"
    cases = (("Mean", 1), ("Mean", 2), ("Mean", 3), ("Mean", 4), ("Asian", 3))

    def __init__(self):
        self.name = "property:average-between-extremes"

    def prove(self, vc, case):
        cls, n = case
        nm = f"{self.name}[{cls},{n}]"
        o = vc.new(UND + cls)
        if cls == "Mean":
            path = mk_path(vc, "path", (n, 2))
            vals = [path[i, -1] for i in range(n)]
            times = [0.0, 1.0]
        else:
            path = mk_path(vc, "path", (n,))
            vals = list(path[1:])            # observation dates t_1..t_{n-1} (t_0 = 0 has zero weight)
            ts = vc.reals("times", n)
            vc.assume(And(ts[0] == 0, *[a < b for a, b in zip(ts, ts[1:])]))
            times = np.array(ts, dtype=object)
        from pyvc.sym import PyRaise
        try:
            v = vc.method(o, "value", times, path, path)
        except PyRaise as e:
            vc.check(nm + f"::evaluates-without-exception", False)
            return
        vc.check(nm + "::not-below-minimum", v >= smin(vals))
        vc.check(nm + "::not-above-maximum", v <= smax(vals))

    def replay(self, model, clause, case):
        cls, n = case
        und = native_mod("rpylib.product.underlying")
        o = getattr(und, cls)()
        try:
            if cls == "Mean":
                path = np.array([max(fl(v), 1e-3) for v in model.get("path", [1.0] * (2 * n))][: 2 * n]).reshape(n, 2)
                v = float(o.value([0.0, 1.0], path, path))
                vals = path[:, -1]
            else:
                path = np.array([max(fl(v), 1e-3) for v in model.get("path", [1.0 + i for i in range(n)])][:n])
                times = np.array([fl(v) for v in model.get("times", list(range(n)))][:n], dtype=float)
                if not all(a < b for a, b in zip(times, times[1:])):
                    times = np.arange(n, dtype=float)
                v = float(o.value(times, path, path))
                vals = path[1:]
            return (not (min(vals) - 1e-9 <= v <= max(vals) + 1e-9), {"path": path.tolist(), "value": v})
        except Exception as e:
            return (True, {"path": path.tolist(), "exception": f"{type(e).__name__}: {e}"})


def first_default(times, jump_log, a):
    """spec (property text): first times[i+1] whose log-jump ratio jump[i+1]-jump[i] is below a; +inf if none"""
    for i in range(len(jump_log) - 1):
        if bool(jump_log[i + 1] - jump_log[i] < a):
            return times[i + 1]
    return INF


class DefaultTimes(Lemma):
    prop = "C17"
    cases = tuple(("DefaultTime", n, 1) for n in (2, 3, 4)) + (("NthDefaultTimes", 2, 2), ("NthDefaultTimes", 3, 2), ("NthDefaultTimes", 2, 3), ("NthDefaultTimes:identity", 2, 2)) \
        + tuple((f"DefaultTimeNthUnderlying:{idx}:{rep}", n, 2) for n in (3, 4) for idx in (1, 2) for rep in ("log", "identity"))

    def __init__(self):
        self.name = "property:default-times"

    def prove(self, vc, case):
        cls, n, d = case
        nm = f"{self.name}[{cls},{n},{d}]"
        ts = vc.reals("times", n)
        vc.assume(And(ts[0] == 0, *[x < y for x, y in zip(ts, ts[1:])]))
        times = np.array(ts, dtype=object)
        if cls == "DefaultTime":
            a = vc.real("default_level")
            vc.assume(a < 0)
            o = vc.new(UND + "DefaultTime", a)
            jl = mk_path(vc, "log_jump_path", (n,), positive=False)
            v = vc.method(o, "_value_log", times, jl, jl)
            vc.check(nm + "::first-jump-below-threshold-else-infinite", same(v, first_default(ts, list(jl), a)))
            # identity representation: same on the exponentiated path
            jp = mk_path(vc, "jump_path", (n,))
            v2 = vc.method(o, "value", times, jp, jp)
            vc.check(nm + "::identity-representation-agrees", same(v2, first_default(ts, list(log_of(vc, jp)), a)))
        elif cls.startswith("DefaultTimeNthUnderlying"):
            # the default time of ONE name of a d-name model, one unit per name and representation
            _, idx, rep = cls.split(":")
            idx = int(idx)
            nm = f"{self.name}[DefaultTimeNthUnderlying,{n},{d}]"
            levels = vc.reals("default_levels", d)
            vc.assume(And(*[x < 0 for x in levels]))
            o = vc.new(UND + "DefaultTimeNthUnderlying", list(levels), idx)
            if rep == "log":
                jl = mk_path(vc, "log_jump_path", (d, n), positive=False)
                v = vc.method(o, "_value_log", times, jl, jl)
                vc.check(nm + f"::name{idx}:log-representation:first-jump-below-its-threshold-else-infinite", same(v, first_default(ts, list(jl[idx - 1]), levels[idx - 1])))
            else:
                jp = mk_path(vc, "jump_path", (d, n))
                v2 = vc.method(o, "value", times, jp, jp)
                vc.check(nm + f"::name{idx}:identity-representation:first-jump-below-its-threshold-else-infinite", same(v2, first_default(ts, list(log_of(vc, jp)[idx - 1]), levels[idx - 1])))
        else:
            levels = vc.reals("default_levels", d)
            vc.assume(And(*[x < 0 for x in levels]))
            jl = mk_path(vc, "log_jump_path", (d, n), positive=False)
            singles = [first_default(ts, list(jl[k]), levels[k]) for k in range(d)]
            prev = None
            ident = cls.endswith(":identity")
            nm = nm.replace(":identity", "")
            for idx in range(1, d + 1):
                o = vc.new(UND + "NthDefaultTimes", list(levels), idx)
                if not ident:
                    # history: the SAME object first evaluates another, arbitrary path (any defaults it wants)
                    # (a path on which every name defaults at the first step: log-ratio 2 a_k - 1 < a_k)
                    other = np.empty((d, n), dtype=object)
                    for k in range(d):
                        for j in range(n):
                            other[k, j] = 0.0 if j == 0 else j * (2 * levels[k] - 1)
                    vc.method(o, "_value_log", times, other, other)
                v = vc.method(o, "_value_log", times, jl, jl)
                # the idx-th smallest of the single-name default times
                if ident:
                    cnt_le = cnt_lt = None
                cnt_le = sum(1 for s_ in singles if bool(le(s_, v))) if not ident else 0
                cnt_lt = sum(1 for s_ in singles if bool(lt(s_, v))) if not ident else 0
                if not ident:
                    vc.check(nm + f"::{idx}-th-default-is-the-{idx}-th-smallest", And(cnt_lt < idx, cnt_le >= idx))
                if prev is not None and not ident:
                    vc.check(nm + f"::{idx}-th-default-not-before-{idx - 1}-th", le(prev, v))
                prev = v
                if not ident:
                    continue
                # identity representation (positive jump path) must agree with the log representation of its logarithm
                from pyvc.sym import PyRaise
                jp = mk_path(vc, f"jump_path{idx}", (d, n))
                try:
                    v_id = vc.method(o, "value", times, jp, jp)
                except PyRaise as e:
                    vc.check(nm + f"::{idx}-th-default:identity-representation-evaluates", False)
                    continue
                v_lg = vc.method(o, "_value_log", times, log_of(vc, jp), log_of(vc, jp))
                vc.check(nm + f"::{idx}-th-default:identity-representation-agrees", same(v_id, v_lg))

    def replay(self, model, clause, case):
        cls, n, d = case
        und = native_mod("rpylib.product.underlying")
        times = np.array([fl(v) for v in model.get("times", list(range(n)))][:n], dtype=float)
        if not all(a < b for a, b in zip(times, times[1:])):
            times = np.arange(n, dtype=float)
        cls = cls.split(":")[0]
        if cls == "DefaultTime":
            a = min(fl(model.get("default_level", -0.5)), -1e-9)
            jl = np.array([fl(v) for v in model.get("log_jump_path", [0.0] * n)][:n])
            o = und.DefaultTime(a)
            v = o._value_log(times, jl, jl)
            want = next((times[i + 1] for i in range(n - 1) if jl[i + 1] - jl[i] < a), np.inf)
            return (not (v == want), {"times": times.tolist(), "log_jump_path": jl.tolist(), "a": a, "native": float(v), "expected": float(want)})
        levels = [min(fl(v), -1e-9) for v in model.get("default_levels", [-0.5] * d)][:d]
        jl = np.array([fl(v) for v in model.get("log_jump_path", [0.0] * (d * n))][: d * n]).reshape(d, n)
        if cls.startswith("DefaultTimeNthUnderlying"):
            # witness with two jumps below the threshold, the later one larger (and the solver's own path)
            cands = [jl, np.array([[0.0, -0.15, -0.15, -0.55][:n], [0.0, -0.6, -0.6, -1.5][:n]])[:d]]
            for path_ in cands:
                lv = levels if path_ is jl else [-0.1] * d
                for k in range(1, d + 1):
                    o = und.DefaultTimeNthUnderlying(list(lv), k)
                    want = next((times[i + 1] for i in range(n - 1) if path_[k - 1][i + 1] - path_[k - 1][i] < lv[k - 1]), np.inf)
                    got_log = float(o._value_log(times, path_, path_))
                    got_id = float(o.value(times, np.exp(path_), np.exp(path_)))
                    if got_log != want or got_id != want:
                        return (True, {"levels": list(lv), "name": k, "times": times.tolist(), "log_jump_path": np.asarray(path_).tolist(), "log_representation": got_log, "identity_representation": got_id, "first_jump_below_the_threshold": float(want)})
            return (False, {"levels": levels})
        if "identity-representation" in clause:
            try:
                jp = np.exp(jl)
                vals_id = [float(und.NthDefaultTimes(levels, k).value(times, jp, jp)) for k in range(1, d + 1)]
                vals_lg = [float(und.NthDefaultTimes(levels, k)._value_log(times, jl, jl)) for k in range(1, d + 1)]
                return (vals_id != vals_lg, {"identity": vals_id, "log": vals_lg})
            except Exception as e:
                return (True, {"levels": levels, "exception": f"{type(e).__name__}: {e}"})
        def after_history(k):
            o = und.NthDefaultTimes(levels, k)
            crash = np.cumsum(np.full((d, n), 2 * min(levels) - 1.0), axis=1)       # every name defaults at the first step
            o._value_log(times, crash, crash)
            return float(o._value_log(times, jl, jl))
        vals = [after_history(k) for k in range(1, d + 1)]
        singles = sorted(next((times[i + 1] for i in range(n - 1) if jl[k][i + 1] - jl[k][i] < levels[k]), np.inf) for k in range(d))
        return (vals != singles, {"levels": levels, "log_jump_path": jl.tolist(), "nth_default_times": vals, "sorted_single_name_times": singles})


def le(a, b):
    r = compare(a, b, "<=")
    return r


def lt(a, b):
    return compare(a, b, "<")


class ProductPurity(Lemma):
    """Product.underlying_value / Product.__call__ on one product object: the value on a path is the value a fresh
    product gives on that path, whatever was evaluated before (including an earlier path with the same terminal spot),
    and a change of notional takes effect at the next evaluation."""
    prop = "C17"
    cases = (2, 3)

    def __init__(self):
        self.name = "property:product-history-independence"

    def _mk(self, vc, k, b, notional):
        CALL = vc.enum(PAY + "PayoffType", "CALL")
        out = vc.new(PAY + "Barrier", k, CALL, vc.enum(PAY + "BarrierType", "UP_AND_OUT"), b)
        return vc.new(PRO + "Product", vc.new(UND + "Spot"), out, 1.0, notional)

    def prove(self, vc, n):
        nm = f"{self.name}[{n}]"
        k, b, notional, notional2 = vc.real("strike"), vc.real("barrier"), vc.real("notional"), vc.real("notional2")
        used, fresh = self._mk(vc, k, b, notional), self._mk(vc, k, b, notional)
        earlier, path = mk_path(vc, "earlier_path", (n,)), mk_path(vc, "path", (n,))
        times = [float(i) for i in range(n)]
        it = vc.interp
        u0 = vc.method(used, "underlying_value", times, earlier, earlier)
        v0 = it.call(used, [u0], {})
        u1 = vc.method(used, "underlying_value", times, path, path)
        v1 = it.call(used, [u1], {})
        uf_ = vc.method(fresh, "underlying_value", times, path, path)
        vf = it.call(fresh, [uf_], {})
        vc.check(nm + "::underlying-value-is-a-function-of-the-path", same(u1, uf_))
        vc.check(nm + "::value-independent-of-earlier-evaluations", same(v1, vf))
        hit = Or(*[x > b for x in path])
        vc.check(nm + "::value-is-notional-times-payoff-of-this-path", same(v1, notional * If(hit, 0.0, pos(path[-1] - k))))
        it.setattr(used, "notional", notional2)
        v2 = it.call(used, [u1], {})
        vc.check(nm + "::notional-change-takes-effect", same(v2, notional2 * If(hit, 0.0, pos(path[-1] - k))))

    def replay(self, model, clause, n):
        pay, und, pro = native_mod("rpylib.product.payoff"), native_mod("rpylib.product.underlying"), native_mod("rpylib.product.product")
        k, b = fl(model.get("strike", 90.0)), fl(model.get("barrier", 120.0))
        no, no2 = fl(model.get("notional", 1.0)), fl(model.get("notional2", 2.0))
        earlier = np.array([max(fl(v), 1e-6) for v in model.get("earlier_path", [100.0, 130.0, 105.0][:n])][:n])
        path = np.array([max(fl(v), 1e-6) for v in model.get("path", [100.0, 110.0, 105.0][:n])][:n])

        def mk():
            return pro.Product(und.Spot(), pay.Barrier(k, pay.PayoffType.CALL, pay.BarrierType.UP_AND_OUT, b), 1.0, no)
        used, fresh = mk(), mk()
        t = [float(i) for i in range(n)]
        v0 = used(used.underlying_value(t, earlier, earlier))
        u1 = used.underlying_value(t, path, path)
        v1 = float(used(u1))
        vf = float(fresh(fresh.underlying_value(t, path, path)))
        used.notional = no2
        v2 = float(used(u1))
        hit = any(x > b for x in path)
        want = 0.0 if hit else max(path[-1] - k, 0.0)
        info = {"strike": k, "barrier": b, "earlier_path": earlier.tolist(), "path": path.tolist(), "used_object": v1, "fresh_object": vf,
                "after_notional_change": v2, "expected": [no * want, no2 * want]}
        if "notional-change" in clause:
            return (not Req(v2, no2 * want), info)
        if "independent" in clause or "function-of-the-path" in clause:
            return (not Req(v1, vf), info)
        return (not Req(v1, no * want), info)


UNITS += [Averages(), DefaultTimes(), ProductPurity()]


class PayoffLeavesItsArgument(Lemma):
    """frame condition behind "the value depends only on the path": evaluating a payoff on an array of underlyings does not
    modify that array (it may be a view of the simulated path that other products read) -- Rainbow (call / put, 3
    performances of any order), Vanilla with a strike vector, Digital, CallSpread."""
    prop = "C17"
    cases = ("Rainbow-call", "Rainbow-put", "Vanilla-vector")      # the payoffs that take an ARRAY of underlyings

    def __init__(self):
        self.name = "property:payoff-evaluation-leaves-the-underlying-array-untouched"

    def prove(self, vc, case):
        nm = f"{self.name}[{case}]"
        PAY = "rpylib.product.payoff:"
        PT = lambda m: vc.enum(PAY + "PayoffType", m)
        u = np.array(vc.reals("underlying", 3), dtype=object)
        before = list(u)
        if case.startswith("Rainbow"):
            p = vc.new(PAY + "Rainbow", [0.5, 0.3, 0.2], vc.real("strike"), PT("CALL" if case.endswith("call") else "PUT"))
        elif case == "Vanilla-vector":
            p = vc.new(PAY + "Vanilla", np.array(vc.reals("strikes", 3), dtype=object), PT("CALL"))
        elif case == "Digital":
            p = vc.new(PAY + "Digital", vc.real("strike"), PT("CALL"))
        else:
            k1, k2 = vc.real("k1"), vc.real("k2")
            vc.assume(k1 < k2)
            p = vc.new(PAY + "CallSpread", k1, k2)
        vc.method(p, "evaluate", u)
        vc.check(nm + "::argument-unchanged", And(*[compare(x, y, "==") for x, y in zip(list(u), before)]))

    def replay(self, model, clause, case):
        from rpylib.product.payoff import Rainbow, Vanilla, Digital, CallSpread, PayoffType
        u = np.array([1.3, 0.7, 1.1])
        keep = u.copy()
        p = {"Rainbow-call": lambda: Rainbow([0.5, 0.3, 0.2], 1.0, PayoffType.CALL), "Rainbow-put": lambda: Rainbow([0.5, 0.3, 0.2], 1.0, PayoffType.PUT),
             "Vanilla-vector": lambda: Vanilla(np.array([0.9, 1.0, 1.2]), PayoffType.CALL), "Digital": lambda: Digital(1.0, PayoffType.CALL),
             "CallSpread": lambda: CallSpread(0.9, 1.2)}[case]()
        p.evaluate(u)
        return (not np.array_equal(u, keep), {"payoff": case, "argument_before": keep.tolist(), "argument_after": u.tolist()})


UNITS += [PayoffLeavesItsArgument()]

class _ScriptedPath:
    """a coupled stochastic path handed to MLMCPath.process: component 0 = fine, 1 = coarse"""

    def __init__(self, times, values):
        self._t, self._v = times, values

    def times(self):
        return self._t

    def value(self):
        return self._v

    def value_jump(self):
        return self._v


class MultilevelPathProcess(Lemma):
    """MLMCPath.process (real body) with a PATH-DEPENDENT payoff (real Barrier on the real Spot; two monitoring dates, fine and
    coarse paths symbolic): the fine payoff is the value of the product on the FINE path alone and the coarse payoff its value
    on the COARSE path alone -- "the value of a product on a path depends only on that path" inside the multilevel sample
    (each of the two is compared with a fresh, separate evaluation of an identical product on that path)."""
    prop = "C17"
    cases = ("DOWN_AND_OUT", "UP_AND_IN")

    def __init__(self):
        self.name = "property:multilevel-sample-values-each-path-on-its-own"

    def prove(self, vc, kind):
        nm = f"{self.name}[{kind}]"
        it = vc.interp
        PY, PD, UL, PA = "rpylib.product.payoff:", "rpylib.product.product:", "rpylib.product.underlying:", "rpylib.montecarlo.path:"
        strike, barrier = vc.real("strike"), vc.real("barrier")
        n = 2
        fine, coarse = vc.reals("fine", n + 1), vc.reals("coarse", n + 1)
        ts = [0.0, 0.5, 1.0]

        def product():
            pay = vc.new(PY + "Barrier", strike, vc.enum(PY + "PayoffType", "CALL"), vc.enum(PY + "BarrierType", kind), barrier)
            return vc.new(PD + "Product", vc.new(UL + "Spot"), pay, 1.0)
        prod = product()
        values = np.array([fine, coarse], dtype=object)
        sp_ = _ScriptedPath(np.array(ts), values)
        it.hooks[PA + "MLMCPath.process_spot_level_l"] = lambda i_, f, b: None
        det = it.lib.Model(lambda i_, t_: 0.0, "deterministic_path")
        pm = vc.obj(PA + "MLMCPath", stochastic_path=sp_, deterministic_path=det)
        vc.method(pm, "process", prod, vc.new(PD + "NoControlVariates"))
        got = np.ravel(np.asarray(pm.fields["payoff"], dtype=object))
        vc.check(nm + "::two-payoffs", len(got) == 2)
        if len(got) != 2:
            return
        for comp, path_, tag in ((0, fine, "fine"), (1, coarse, "coarse")):
            alone = product()
            u = vc.method(alone, "underlying_value", np.array(ts), np.array(path_, dtype=object), np.array(path_, dtype=object))
            want = it.call(alone, [u], {})
            vc.check(nm + f"::{tag}-payoff-is-the-value-of-the-product-on-the-{tag}-path-alone", compare(got[comp], want, "=="))

    def replay(self, model, clause, kind):
        from rpylib.product.payoff import Barrier, PayoffType, BarrierType
        from rpylib.product.product import Product, NoControlVariates
        from rpylib.product.underlying import Spot
        from rpylib.montecarlo.path import MLMCPath
        mk = lambda: Product(Spot(), Barrier(100.0, PayoffType.CALL, getattr(BarrierType, kind), 90.0 if "DOWN" in kind else 115.0), 1.0)
        fine = np.array([100.0, 95.0, 110.0]) if "DOWN" in kind else np.array([100.0, 120.0, 110.0])      # no event / event
        coarse = np.array([100.0, 85.0, 108.0]) if "DOWN" in kind else np.array([100.0, 105.0, 108.0])    # event / no event
        ts = np.array([0.0, 0.5, 1.0])
        pm = MLMCPath.__new__(MLMCPath)
        pm.stochastic_path = _ScriptedPath(ts, np.array([fine, coarse]))
        pm.deterministic_path = lambda t: 0.0
        pm.process_spot_level_l = lambda a, b: None
        pm.process(mk(), NoControlVariates())
        got = [float(v) for v in np.ravel(pm.payoff)]
        want = []
        for p_ in (fine, coarse):
            pr = mk()
            want.append(float(pr(pr.underlying_value(ts, p_, p_))))
        return (not np.allclose(got, want), {"barrier_type": kind, "fine_path": fine.tolist(), "coarse_path": coarse.tolist(), "payoffs_in_the_multilevel_sample": got, "each_path_on_its_own": want})


UNITS += [MultilevelPathProcess()]

class ProductRepresentationHistory(Lemma):
    """Product.update (real body) under a history: "the value does not depend on which process the product was priced with
    before".  (a) two products SHARE one underlying object and are set up alternately for a logarithmic and an identity
    process; (b) the product's underlying is replaced by a fresh one after a set-up.  After update(LOG) the product values a
    log-path as its exponential, after update(IDENTITY) a path as it is."""
    prop = "C17"
    cases = ("shared underlying", "underlying replaced")

    def __init__(self):
        self.name = "property:representation-follows-the-latest-set-up"

    def prove(self, vc, case):
        PD_, PY_ = "rpylib.product.product:", "rpylib.product.payoff:"
        nm = f"{self.name}[{case}]"
        LOG = vc.enum(PR + "ProcessRepresentation", "LOG")
        IDENT = vc.enum(PR + "ProcessRepresentation", "IDENDITY")
        spot = vc.new(UND + "Spot")
        strike = vc.real("strike")
        mk = lambda u: vc.new(PD_ + "Product", u, vc.new(PY_ + "Vanilla", strike, vc.enum(PY_ + "PayoffType", "CALL")), 1.0)
        path = mk_path(vc, "path", (2,))
        times = [0.0, 1.0]
        logp = log_of(vc, path)
        if case == "shared underlying":
            a, b = mk(spot), mk(spot)
            vc.method(a, "update", LOG)
            vc.method(b, "update", IDENT)
            vc.method(a, "update", LOG)            # the same kind of process as a's previous set-up
            ua = vc.method(a, "underlying_value", times, logp, logp)
            vc.check(nm + "::set-up-again-for-a-log-process:values-the-log-path-as-the-spot", same(ua, path[-1]))
            vc.method(b, "update", IDENT)
            ub = vc.method(b, "underlying_value", times, path, path)
            vc.check(nm + "::set-up-again-for-an-identity-process:values-the-path-as-it-is", same(ub, path[-1]))
        else:
            a = mk(spot)
            vc.method(a, "update", LOG)
            vc.interp.setattr(a, "payoff_underlying", vc.new(UND + "Spot"))
            vc.method(a, "update", LOG)
            ua = vc.method(a, "underlying_value", times, logp, logp)
            vc.check(nm + "::set-up-for-a-log-process-after-the-underlying-was-replaced:values-the-log-path-as-the-spot", same(ua, path[-1]))

    def replay(self, model, clause, case):
        und = native_mod("rpylib.product.underlying")
        prd = native_mod("rpylib.product.product")
        pay = native_mod("rpylib.product.payoff")
        PRn = native_mod("rpylib.process.process").ProcessRepresentation
        path = np.array([100.0, 120.0])
        times = [0.0, 1.0]
        mk = lambda u: prd.Product(u, pay.Vanilla(100.0, pay.PayoffType.CALL), 1.0)
        if case == "shared underlying":
            s_ = und.Spot()
            a, b = mk(s_), mk(s_)
            a.update(PRn.LOG); b.update(PRn.IDENDITY); a.update(PRn.LOG)
            ua = float(a.underlying_value(times, np.log(path), np.log(path)))
            b.update(PRn.IDENDITY)
            ub = float(b.underlying_value(times, path, path))
            return (abs(ua - 120.0) > 1e-9 or abs(ub - 120.0) > 1e-9, {"spot_path": path.tolist(), "value_for_the_log_process": ua, "value_for_the_identity_process": ub})
        a = mk(und.Spot())
        a.update(PRn.LOG)
        a.payoff_underlying = und.Spot()
        a.update(PRn.LOG)
        ua = float(a.underlying_value(times, np.log(path), np.log(path)))
        return (abs(ua - 120.0) > 1e-9, {"spot_path": path.tolist(), "value_for_the_log_process_after_replacing_the_underlying": ua})


UNITS += [ProductRepresentationHistory()]




def LATE_UNITS():
    # "the value of a product on a path depends only on that path and the product's terms": a product used as a CONTROL is
    # valued on its own terms too, whatever product is being priced (the contract lives with the control variates, c07)
    from contracts import c07
    return [c07.ControlUnderlyings(), c07.ControlReadsItsPath()]


class PathDependentPayoffRepresentation(Lemma):
    """"identity and logarithmic process representations give the same [...] value for the same spot path", for the products
    whose payoff reads the PATH (stateful barrier flag, running maximum of the look-back): a product set up for a logarithmic
    process and handed the log-path is worth what the same product set up for an identity process is worth on the spot path
    (real Product.update / underlying_value / __call__, real Barrier / LookBack bodies; 3 path points, the barrier anywhere)."""
    prop = "C17"
    cases = ("DOWN_AND_OUT", "DOWN_AND_IN", "UP_AND_OUT", "UP_AND_IN")      # LookBack.process raises in both representations (unfinished in the library)

    def __init__(self):
        self.name = "property:path-dependent-payoff-agrees-between-representations"

    def _product(self, vc, case, strike, level):
        PAY = "rpylib.product.payoff:"
        if case == "LookBack":
            pay = vc.new(PAY + "LookBack", level)
        else:
            pay = vc.new(PAY + "Barrier", strike, vc.enum(PAY + "PayoffType", "CALL"), vc.enum(PAY + "BarrierType", case), level)
        return vc.new("rpylib.product.product:Product", vc.new(UND + "Spot"), pay, 1.0)

    def prove(self, vc, case):
        nm = f"{self.name}[{case}]"
        path = mk_path(vc, "path", (3,))
        strike, level = vc.real("strike"), vc.real("barrier_or_prefixed_maximum")
        vc.assume(And(strike > 0, level > 0))
        times = [0.0, 0.5, 1.0]
        LOG = vc.enum(PR + "ProcessRepresentation", "LOG")
        IDENT = vc.enum(PR + "ProcessRepresentation", "IDENDITY")
        p_id, p_log = self._product(vc, case, strike, level), self._product(vc, case, strike, level)
        vc.method(p_id, "update", IDENT)
        vc.method(p_log, "update", LOG)
        v_id = vc.method(p_id, "__call__", vc.method(p_id, "underlying_value", times, path, path))
        lp = log_of(vc, path)
        v_log = vc.method(p_log, "__call__", vc.method(p_log, "underlying_value", times, lp, lp))
        vc.check(nm + "::same-value-for-the-same-spot-path", same(v_id, v_log))

    def replay(self, model, clause, case):
        pay, prd, und = native_mod("rpylib.product.payoff"), native_mod("rpylib.product.product"), native_mod("rpylib.product.underlying")
        PRn = native_mod("rpylib.process.process").ProcessRepresentation
        cands = [[max(fl(v), 1e-3) for v in model.get("path", [])][:3], [100.0, 85.0, 108.0], [100.0, 112.0, 108.0]]
        k0, l0 = fl(model.get("strike", 100.0)), fl(model.get("barrier_or_prefixed_maximum", 90.0))
        for path, strike, level in [(c, k, l) for c in cands if len(c) == 3 for (k, l) in ((k0, l0), (100.0, 90.0), (100.0, 105.0))]:
            def mk():
                if case == "LookBack":
                    po = pay.LookBack(level)
                else:
                    po = pay.Barrier(strike, pay.PayoffType.CALL, getattr(pay.BarrierType, case), level)
                return prd.Product(und.Spot(), po, 1.0)
            a, b = mk(), mk()
            a.update(PRn.IDENDITY)
            b.update(PRn.LOG)
            p = np.array(path, dtype=float)
            t = np.array([0.0, 0.5, 1.0])
            va = float(np.ravel(a(a.underlying_value(t, p, p)))[0])
            vb = float(np.ravel(b(b.underlying_value(t, np.log(p), np.log(p))))[0])
            if abs(va - vb) > 1e-9 * max(1.0, abs(va)):
                return (True, {"payoff": case, "spot_path": path, "strike": strike, "barrier_or_prefixed_maximum": level, "value_identity_representation": va, "value_log_representation": vb})
        return (False, {})


UNITS += [PathDependentPayoffRepresentation()]


class ControlsFollowTheProcessRepresentation(Lemma):
    """Engine.initialisation of BOTH engines (real bodies; the process / statistics set-up abstract): the priced product AND
    every control-variate product are set up (Product.update) for the representation of the process the paths come from,
    before the controls' value functions are bound (Configuration.initialisation) -- a control on another underlying than
    the priced product's is otherwise valued in the identity representation on a logarithmic path."""
    prop = "C17"
    cases = ("standard", "multilevel")

    def __init__(self):
        self.name = "property:controls-are-set-up-for-the-process-representation"

    def prove(self, vc, which):
        nm = f"{self.name}[{which}]"
        it = vc.interp
        log = []
        LOG = vc.enum(PR + "ProcessRepresentation", "LOG")
        it.hooks["rpylib.product.product:Product.update"] = lambda it_, f, b: log.append(("update", b["self"].fields.get("tag"), b["process_representation"]))
        it.hooks["rpylib.montecarlo.configuration:Configuration.initialisation"] = lambda it_, f, b: log.append(("bind",))
        for fq in ("rpylib.product.underlying:Underlying.check_consistency", "rpylib.process.process:Process.initialisation", "rpylib.process.process:Process.pre_computation",
                   "rpylib.process.coupling.couplingmarkovchain:CouplingMarkovChain.initialisation", "rpylib.process.coupling.couplingmarkovchain:CouplingMarkovChain.pre_computation",
                   "rpylib.numerical.cosmethod:COSPricer.__init__"):
            it.hooks[fq] = lambda it_, f, b: None
        it.hooks["rpylib.montecarlo.path:create_path"] = lambda it_, f, b: None
        it.hooks["rpylib.montecarlo.statistic.statistic:create_mlmc_statistics"] = lambda it_, f, b: None
        it.hooks["rpylib.montecarlo.statistic.statistic:create_mc_statistics"] = lambda it_, f, b: None
        it.hooks["rpylib.montecarlo.multilevel.engine:helper_create_fun"] = lambda it_, f, b: None
        it.hooks["rpylib.model.model:Model.dimension"] = lambda it_, f, b: 1
        it.hooks["rpylib.model.model:Model.dimension_model"] = lambda it_, f, b: 1
        it.hooks["rpylib.process.process:Process.dimension"] = lambda it_, f, b: 1
        mkp = lambda tag: vc.obj("rpylib.product.product:Product", tag=tag, maturity=1.0, payoff=vc.obj("rpylib.product.payoff:Payoff"), payoff_underlying=vc.obj(UND + "Underlying"))
        priced, c1, c2 = mkp("priced"), mkp("control1"), mkp("control2")
        cv = vc.obj("rpylib.product.product:ControlVariates", products=[c1, c2], prices=[0.0, 0.0], nb_cvs=2, _underlying_functions=[])
        model = vc.obj("rpylib.model.model:Model", process_representation=LOG)
        proc = vc.obj("rpylib.process.process:Process", process_representation=LOG, model=model, deterministic_path=None)
        if which == "standard":
            cfg = vc.obj("rpylib.montecarlo.configuration:ConfigurationStandard", mc_paths=3, nb_of_processes=1, control_variates=cv, activate_spot_statistics=False)
            eng = vc.obj("rpylib.montecarlo.standard.engine:Engine", configuration=cfg, process=proc, path_manager=None, statistics=None)
            vc.method(eng, "initialisation", 3, priced)
        else:
            cfg = vc.obj("rpylib.montecarlo.configuration:ConfigurationMultiLevel", initial_mc_paths=3, initial_level=2, nb_of_processes=1, control_variates=cv)
            cp = vc.obj("rpylib.process.coupling.couplingmarkovchain:CouplingMarkovChain", fine_process=proc, model=model)
            eng = vc.obj("rpylib.montecarlo.multilevel.engine:Engine", configuration=cfg, coupling_process=cp, path_managers=[], statistics=None)
            vc.method(eng, "initialisation", priced)
        bind = next((i for i, e in enumerate(log) if e[0] == "bind"), len(log))
        before = [e for e in log[:bind] if e[0] == "update"]
        for tag in ("priced", "control1", "control2"):
            vc.check(nm + f"::{tag}-product-is-set-up-for-the-process-representation-before-the-controls-are-bound",
                     any(e[1] == tag and e[2] is LOG for e in before))

    def replay(self, model, clause, which):
        import warnings
        import logging
        from rpylib.distribution.sampling import SamplingMethod
        from rpylib.grid.spatial import CTMCUniformGrid
        from rpylib.model.utils import create_exponential_of_levy_model, ModelType
        from rpylib.product.payoff import Forward, Vanilla, PayoffType
        from rpylib.product.product import Product, ControlVariates
        from rpylib.product.underlying import Spot, Asian, Discretisation
        with warnings.catch_warnings():
            warnings.simplefilter("ignore")
            logging.disable(logging.WARNING)
            try:
                m = create_exponential_of_levy_model(ModelType.HEM)(spot=100.0, r=0.05, d=0.02, sigma=0.1, p=0.6, eta1=25.0, eta2=40.0, intensity=5.0)
                product = Product(Asian(Discretisation.MONTHLY), Vanilla(100.0, PayoffType.CALL), 0.25)
                ctrl = Product(Spot(), Forward(strike=100.0), 0.25)
                cv = ControlVariates([ctrl], [float(np.exp(-0.05 * 0.25) * (100 * np.exp(0.03 * 0.25) - 100))])
                if which == "standard":
                    from rpylib.montecarlo.configuration import ConfigurationStandard
                    from rpylib.montecarlo.standard.engine import Engine
                    from rpylib.process.levyprocess import LevyProcess
                    st = Engine(ConfigurationStandard(mc_paths=50, seed=3, nb_of_processes=1, control_variates=cv), LevyProcess(m)).price(product)
                    vals = np.ravel(st._control_variates_statistics.stats)
                else:
                    from rpylib.montecarlo.configuration import ConfigurationMultiLevel, compute_convergence_rates
                    from rpylib.montecarlo.multilevel.engine import Engine
                    from rpylib.process.coupling.couplingmarkovchain import CouplingMarkovChain
                    cfg = ConfigurationMultiLevel(convergence_rates=compute_convergence_rates(m.blumenthal_getoor_index()), initial_level=2, maximum_level=2, initial_mc_paths=50, seed=3,
                                                  nb_of_processes=1, control_variates=cv)
                    st = Engine(cfg, CouplingMarkovChain(model=m, method=SamplingMethod.ALIAS, grid=CTMCUniformGrid(h=0.2, model=m))).price_with_constant_mc_paths_and_level(product)
                    vals = np.ravel(st.mc_statistics[0]._control_variates_statistics.stats)
                # a forward struck at the spot over 3 months: discounted S_T - 100 stays within a few tens; log(S_T) - 100 is near -95
                return (bool(np.median(vals) < -50.0), {"engine": which, "control": "forward on the spot, strike 100", "first_control_values": vals[:4].tolist(), "median": float(np.median(vals))})
            finally:
                logging.disable(logging.NOTSET)


UNITS += [ControlsFollowTheProcessRepresentation()]
