"""C20 — calibration reprices its target; derived parameters stay in sync with updates."""
import numpy as np
import z3

from pyvc.contract import FunctionContract, Lemma, VC, Req
from pyvc.sym import And, Or, Not, Implies, If, Eq, compare, smax, smin, is_sym, Sym, lift, as_real_term, as_int_term, INF, PyRaise
from pyvc.values import Obj

PROPERTY_ID = "C20"
LEVEL = "proof"
TP = "rpylib.tools.parameter:"

SCALAR = {
    "positive": lambda x, *c: x >= 0, "negative": lambda x, *c: x <= 0,
    "strictly_positive": lambda x, *c: x > 0, "strictly_negative": lambda x, *c: x < 0,
    "greater_than": lambda x, c: x >= c, "strictly_greater_than": lambda x, c: x > c,
    "less_than": lambda x, c: x <= c, "strictly_less_than": lambda x, c: x < c,
    "between": lambda x, l, r: And(l <= x, x <= r), "strictly_between": lambda x, l, r: And(l < x, x < r),
}
SEQ = {"positive_sequence": lambda x: x >= 0, "negative_sequence": lambda x: x <= 0,
       "strictly_positive_sequence": lambda x: x > 0, "strictly_negative_sequence": lambda x: x < 0}


class Constraint(Lemma):
    """every constrained-argument descriptor of tools.parameter: an assignment either stores the value (exactly when the
    condition named by the descriptor holds) or raises ValueError and leaves the instance unchanged; reads return the
    stored value."""
    prop = "C20"
    cases = tuple(SCALAR) + tuple(SEQ)

    def __init__(self):
        self.name = "property:parameter-constraints"

    def prove(self, vc, case):
        it = vc.interp
        nm = f"{self.name}[{case}]"
        factory = it.load_module("rpylib.tools.parameter").env.lookup(case)
        bounds = []
        if case in ("greater_than", "strictly_greater_than", "less_than", "strictly_less_than"):
            bounds = [vc.real("bound")]
        elif case in ("between", "strictly_between"):
            bounds = [vc.real("left"), vc.real("right")]
        desc = it.call(it.call(factory, bounds, {}), ["x"], {}) if bounds else it.call(factory, ["x"], {})
        cls = it.get_class("rpylib.model.model:Parameters")
        o = Obj(cls)
        old = vc.real("old_value")
        o.fields["x"] = old
        if case in SEQ:
            v = vc.reals("v", 2)
            cond = And(*[SEQ[case](e) for e in v])
        else:
            v = vc.real("v")
            cond = SCALAR[case](v, *bounds)
        try:
            desc.set(it, o, v)
            vc.check(nm + "::accepted-only-if-the-condition-holds", cond)
            got = desc.get(it, o)
            same = And(*[a == b for a, b in zip(got, v)]) if case in SEQ else got == v
            vc.check(nm + "::stored-and-read-back", same)
        except PyRaise as e:
            vc.check(nm + "::rejected-only-if-the-condition-fails", Not(cond))
            vc.check(nm + "::rejection-is-a-ValueError", e.exc_type == "ValueError")
            vc.check(nm + "::instance-unchanged-on-rejection", (o.fields["x"] is old) and set(o.fields) == {"x"})


PARAMS = {
    "HEM": ("rpylib.model.levymodel.mixed.hem:HEMParameters", ("sigma", "p", "eta1", "eta2", "intensity"),
            lambda P: And(P["sigma"] >= 0, P["p"] > 0, P["eta1"] > 0, P["eta2"] > 0, P["intensity"] >= 0, P["eta1"] != 1)),
    "Merton": ("rpylib.model.levymodel.mixed.merton:MertonParameters", ("sigma", "mu_j", "sigma_j", "intensity"),
               lambda P: And(P["sigma"] >= 0, P["mu_j"] >= 0, P["sigma_j"] > 0, P["intensity"] >= 0)),
    "VG": ("rpylib.model.levymodel.purejump.variancegamma:VGParameters", ("sigma", "nu", "theta"),
           lambda P: And(P["sigma"] > 0, P["nu"] > 0)),
    "CGMY": ("rpylib.model.levymodel.purejump.cgmy:CGMYParameters", ("c", "g", "m", "y"),
             lambda P: And(P["c"] > 0, P["g"] > 0, P["m"] > 0, P["y"] < 2)),
    "BlackScholes": ("rpylib.model.levymodel.mixed.blackscholes:BlackScholesParameters", ("sigma",), lambda P: P["sigma"] >= 0),
}


def fields_equal(a, b):
    """every attribute of the directly constructed object `b` exists on `a` with the same value (an attribute that only
    the updated object carries is never read by a model built from it and is not a behavioural difference)"""
    out = {}
    for k in sorted(b.fields):
        out[k] = Req(a.fields[k], b.fields[k]) if k in a.fields else False
    return dict(sorted(out.items(), key=lambda kv: kv[1] is False))     # a structurally failed check ends the path: keep those last


class Synchronisation(Lemma):
    """a parameters object built with theta0, re-assigned attribute by attribute to theta1 (any order of assignments ends
    in the same primary values) and re-initialised equals, field by field (derived attributes included), one constructed
    directly with theta1."""
    prop = "C20"
    cases = tuple(PARAMS)

    def __init__(self):
        self.name = "property:derived-parameters-stay-in-sync"

    def prove(self, vc, case):
        fq, names, ok = PARAMS[case]
        nm = f"{self.name}[{case}]"
        P0 = {k: vc.real(k + "_0") for k in names}
        P1 = {k: vc.real(k + "_1") for k in names}
        vc.assume(And(ok(P0), ok(P1)))
        a = vc.new(fq, **P0)
        for k in reversed(names):                 # assignment order differs from the constructor's
            vc.interp.setattr(a, k, P1[k])
        vc.method(a, "initialisation")
        b = vc.new(fq, **P1)
        for k, f in fields_equal(a, b).items():
            vc.check(nm + f"::field:{k}", f)

    def replay(self, model, clause, case):
        import importlib
        fq, names, ok = PARAMS[case]
        mod, cn = fq.split(":")
        cls = getattr(importlib.import_module(mod), cn)
        base = {"sigma": 0.2, "p": 0.4, "eta1": 12.0, "eta2": 20.0, "intensity": 2.0, "mu_j": 0.05, "sigma_j": 0.1, "nu": 0.3, "theta": -0.1, "c": 0.5, "g": 5.0, "m": 7.0, "y": 0.5}
        new = {"sigma": 0.4, "p": 0.7, "eta1": 30.0, "eta2": 8.0, "intensity": 4.0, "mu_j": 0.15, "sigma_j": 0.3, "nu": 0.1, "theta": 0.2, "c": 1.5, "g": 9.0, "m": 3.0, "y": 1.2}
        a = cls(**{k: base[k] for k in names})
        for k in reversed(names):
            setattr(a, k, new[k])
        a.initialisation()
        b = cls(**{k: new[k] for k in names})
        diff = {k: (a.__dict__.get(k, np.nan), b.__dict__[k]) for k in b.__dict__ if not np.isclose(a.__dict__.get(k, np.nan), b.__dict__[k])}
        fld = clause.split("field:")[-1]
        return (fld in diff or (not clause.startswith("field") and bool(diff)), {"class": cn, "differences (updated+initialised, fresh)": {k: [float(x) for x in v] for k, v in diff.items()}})


PRICEF = z3.Function("COS_PRICE", z3.RealSort(), z3.RealSort())      # COS price as a function of the calibrated parameter


class Calibration(FunctionContract):
    """calibrate_model_parameter (HEM, parameter sigma): the result lies in the admissible interval and the model REBUILT
    from the re-initialised copy of the parameters reprices the product at the market price (root-finder contract
    assumed); the input model and its parameters object are left untouched; no solution -> ValueError."""
    prop = "C20"
    target = "rpylib.model.utils:calibrate_model_parameter"
    name = "calibrate_model_parameter"
    raises = {"ValueError": lambda **a: True}
    raises_exact = False

    def configure(self, interp):
        from pyvc import ctx
        interp.hooks["rpylib.numerical.cosmethod:COSPricer.__init__"] = lambda it, f, b: b["self"].fields.update(model=b["model"])

        def price(it, f, b):
            g = ctx.PATH.ghost
            m = b["self"].fields["model"]
            par = m.fields["levy_model"].fields["parameters"]
            g.setdefault("priced", []).append((m, par, dict(par.fields), b["product"]))
            return Sym(PRICEF(as_real_term(lift(par.fields["sigma"]))), "r")
        interp.hooks["rpylib.numerical.cosmethod:COSPricer.price"] = price
        # the martingale adjustment omega = -psi(-i) (C10) is abstract here
        interp.hooks["rpylib.model.levymodel.levymodel:LevyModel.levy_exponent"] = lambda it, f, b: ctx.PATH.fresh("psi_at_minus_i", "r")

    def setup(self, vc, case):
        P = {k: vc.real(k) for k in ("sigma", "p", "eta1", "eta2", "intensity")}
        vc.assume(And(P["sigma"] >= 0, P["p"] > 0, P["p"] < 1, P["eta1"] > 1, P["eta2"] > 0, P["intensity"] >= 0))
        par = vc.new("rpylib.model.levymodel.mixed.hem:HEMParameters", **P)
        spot, r, d = vc.real("spot"), vc.real("r"), vc.real("d")
        vc.assume(And(spot > 0, r >= 0, d >= 0))
        model = vc.new("rpylib.model.levymodel.mixed.hem:ExponentialOfHEMModel", spot, r, d, par)
        lo, hi, mkt = vc.real("lo"), vc.real("hi"), vc.real("market_price")
        vc.assume(And(lo >= 0, lo < hi))
        product = vc.obj("rpylib.product.product:Product")
        vc.ghost.update(par=par, P=P, snapshot=dict(par.fields), lo=lo, hi=hi, mkt=mkt, model=model, product=product)
        return dict(model=model, parameter="sigma", parameter_interval=(lo, hi), product=product, market_price=mkt)

    def ensures(self, result, model=None, **kw):
        from pyvc import ctx
        g = ctx.PATH.ghost
        par, snap = g["par"], g["snapshot"]
        priced = g.get("priced", [])
        out = {"result-in-the-admissible-interval": And(g["lo"] <= result, result <= g["hi"]),
               "model-reprices-the-target-at-the-market-price": Sym(PRICEF(as_real_term(lift(result))), "r") == g["mkt"],
               "input-parameters-untouched": And(*[par.fields[k] == v if is_sym(v) or isinstance(v, (int, float)) else par.fields[k] is v for k, v in snap.items()]),
               "input-model-untouched": (model.fields["levy_model"].fields["parameters"] is par)}
        if priced:
            m, p_, fields, prod = priced[-1]
            out["priced-model-is-rebuilt-from-a-copy"] = (m is not model) and (p_ is not par)
            out["priced-with-the-target-product"] = prod is g["product"]
            xi = fields["p"] * fields["eta1"] / (fields["eta1"] - 1) + (1 - fields["p"]) * fields["eta2"] / (fields["eta2"] + 1) - 1
            out["derived-parameters-re-initialised-before-pricing"] = fields["_xi"] == xi
            out["other-parameters-kept"] = And(*[fields[k] == g["P"][k] for k in ("p", "eta1", "eta2", "intensity")])
        else:
            out["priced-at-least-once"] = False
        return out


BSCALLF = z3.Function("BS_CALL", *([z3.RealSort()] * 7))      # (spot, r, d, sigma, strike, maturity) -> Black-Scholes call


class AtmCalibration(FunctionContract):
    """calibrate_model_parameter_to_atm_call (real body; the pricers and calibrate_model_parameter replaced by recorded
    calls): the target is the call struck at the model's spot with the requested maturity, and the market price handed to
    the calibration is the Black-Scholes call of the model's OWN spot, rate and dividend yield at the requested volatility."""
    prop = "C20"
    target = "rpylib.model.utils:calibrate_model_parameter_to_atm_call"
    name = "calibrate_model_parameter_to_atm_call"
    cases = ("first calibration", "after the calibration of a model with the same spot, maturity and volatility but another rate and dividend yield")

    def configure(self, interp):
        from pyvc import ctx
        G = lambda: ctx.PATH.ghost
        def bscall(it, f, b):
            m = b["self"].fields["bs_model"]          # set by the real CFBlackScholes.__init__ (type check included)
            sig = it.getattr(it.getattr(m, "parameters"), "sigma")
            args = [it.getattr(m, "spot"), it.getattr(m, "r"), it.getattr(m, "d"), sig, b["strike"], b["maturity"]]
            G().setdefault("bs_calls", []).append(args)
            return Sym(BSCALLF(*[as_real_term(lift(a)) for a in args]), "r")
        interp.hooks["rpylib.numerical.closedform.cfblackscholes:CFBlackScholes.call"] = bscall

        def calib(it, f, b):
            G().setdefault("calib_calls", []).append(dict(b))
            return G()["calibrated"]
        interp.hooks["rpylib.model.utils:calibrate_model_parameter"] = calib
        interp.hooks["rpylib.model.levymodel.levymodel:LevyModel.levy_exponent"] = lambda it, f, b: ctx.PATH.fresh("psi_at_minus_i", "r")

    def setup(self, vc, case):
        P = {k: vc.real(k) for k in ("sigma", "p", "eta1", "eta2", "intensity")}
        vc.assume(And(P["sigma"] >= 0, P["p"] > 0, P["p"] < 1, P["eta1"] > 1, P["eta2"] > 0, P["intensity"] >= 0))
        par = vc.new("rpylib.model.levymodel.mixed.hem:HEMParameters", **P)
        spot, r, d = vc.real("spot"), vc.real("r"), vc.real("d")
        vc.assume(And(spot > 0, r >= 0, d >= 0))
        model = vc.new("rpylib.model.levymodel.mixed.hem:ExponentialOfHEMModel", spot, r, d, par)
        lo, hi, T, bsig = vc.real("lo"), vc.real("hi"), vc.real("maturity"), vc.real("bs_sigma")
        vc.assume(And(lo < hi, T > 0, bsig > 0))
        vc.ghost.update(model=model, spot=spot, r=r, d=d, T=T, bsig=bsig, interval=(lo, hi), calibrated=vc.real("calibrated_value"), history=case != "first calibration")
        if case != "first calibration":
            # an earlier calibration in the same interpreter: whatever it leaves behind (module-level tables ...) must not
            # reach this one
            r0, d0 = vc.real("r_earlier"), vc.real("d_earlier")
            vc.assume(And(r0 >= 0, d0 >= 0))
            par0 = vc.new("rpylib.model.levymodel.mixed.hem:HEMParameters", **P)
            other = vc.new("rpylib.model.levymodel.mixed.hem:ExponentialOfHEMModel", spot, r0, d0, par0)
            fn = vc.interp.get_function("rpylib.model.utils:calibrate_model_parameter_to_atm_call")
            vc.interp.call(fn, [], dict(model=other, parameter="sigma", parameter_interval=(lo, hi), maturity=T, bs_sigma=bsig))
            vc.ghost["calib_calls"], vc.ghost["bs_calls"] = [], []
        return dict(model=model, parameter="sigma", parameter_interval=(lo, hi), maturity=T, bs_sigma=bsig)

    def ensures(self, result, **a):
        from pyvc import ctx
        g = ctx.PATH.ghost
        calls, bs = g.get("calib_calls", []), g.get("bs_calls", [])
        if g.get("history"):
            # (how often the Black-Scholes pricer is called is not stated here: a table keyed on ALL its inputs would be fine)
            out = {"one-calibration": len(calls) == 1}
            if len(calls) != 1:
                return out
        else:
            out = {"one-calibration-one-black-scholes-price": len(calls) == 1 and len(bs) == 1}
            if len(calls) != 1 or len(bs) != 1:
                return out
        c = calls[0]
        want = Sym(BSCALLF(*[as_real_term(lift(v)) for v in (g["spot"], g["r"], g["d"], g["bsig"], g["spot"], g["T"])]), "r")
        prod = c["product"]
        out["returns-the-calibrated-value"] = result == g["calibrated"]
        out["calibrates-the-input-model-and-parameter-on-the-given-interval"] = (c["model"] is g["model"]) and c["parameter"] == "sigma" and And(c["parameter_interval"][0] == g["interval"][0], c["parameter_interval"][1] == g["interval"][1])
        out["market-price-is-the-black-scholes-call-of-the-model's-own-spot-rate-and-dividend"] = c["market_price"] == want
        out["target-is-the-at-the-money-call-of-the-requested-maturity"] = And(prod.fields["maturity"] == g["T"], prod.fields["payoff"].fields["strike"] == g["spot"],
                                                                               prod.fields["payoff"].fields["_call_put"] == 1)
        return out

    def replay(self, model, clause, case):
        import rpylib.model.utils as U
        from rpylib.model.utils import create_exponential_of_levy_model
        from rpylib.model.levymodel.levymodel import ModelType
        from rpylib.numerical.closedform.cfblackscholes import CFBlackScholes
        seen = {}
        orig = U.calibrate_model_parameter
        U.calibrate_model_parameter = lambda **kw: seen.update(kw) or 0.123
        try:
            if case != "first calibration":
                m0 = create_exponential_of_levy_model(ModelType.HEM)(spot=90.0, r=0.0, d=0.0)
                U.calibrate_model_parameter_to_atm_call(model=m0, parameter="sigma", parameter_interval=(0.0, 1.0), maturity=0.7, bs_sigma=0.2)
            m = create_exponential_of_levy_model(ModelType.HEM)(spot=90.0, r=0.03, d=0.04)
            U.calibrate_model_parameter_to_atm_call(model=m, parameter="sigma", parameter_interval=(0.0, 1.0), maturity=0.7, bs_sigma=0.2)
        finally:
            U.calibrate_model_parameter = orig
        bs = create_exponential_of_levy_model(ModelType.BLACKSCHOLES)(spot=90.0, r=0.03, d=0.04, sigma=0.2)
        want = float(np.ravel(CFBlackScholes(bs).call(strike=90.0, maturity=0.7))[0])
        got = float(np.ravel(seen["market_price"])[0])
        bad = abs(got - want) > 1e-10 or seen["product"].maturity != 0.7 or float(np.ravel(seen["product"].payoff.strike)[0]) != 90.0
        return (bool(bad), {"spot": 90.0, "r": 0.03, "d": 0.04, "bs_sigma": 0.2, "maturity": 0.7, "market_price_used": got, "black_scholes_call": want})


class DefaultCalibration(FunctionContract):
    """run_default_calibration (real body; calibrate_model_parameter_to_atm_call replaced by its contract): the returned
    model has the input's type, spot, rate and dividend yield and a re-initialised COPY of the parameters in which only the
    default parameter was replaced by the calibrated value; the input model and its parameters are untouched."""
    prop = "C20"
    target = "rpylib.model.utils:run_default_calibration"
    name = "run_default_calibration"

    def configure(self, interp):
        from pyvc import ctx
        G = lambda: ctx.PATH.ghost

        def atm(it, f, b):
            G().setdefault("atm_calls", []).append(dict(b))
            return G()["calibrated"]
        interp.hooks["rpylib.model.utils:calibrate_model_parameter_to_atm_call"] = atm
        interp.hooks["rpylib.model.levymodel.levymodel:LevyModel.levy_exponent"] = lambda it, f, b: ctx.PATH.fresh("psi_at_minus_i", "r")

    def setup(self, vc, case):
        P = {k: vc.real(k) for k in ("sigma", "p", "eta1", "eta2", "intensity")}
        vc.assume(And(P["sigma"] >= 0, P["p"] > 0, P["p"] < 1, P["eta1"] > 1, P["eta2"] > 0, P["intensity"] >= 0))
        par = vc.new("rpylib.model.levymodel.mixed.hem:HEMParameters", **P)
        spot, r, d = vc.real("spot"), vc.real("r"), vc.real("d")
        vc.assume(And(spot > 0, r >= 0, d >= 0))
        model = vc.new("rpylib.model.levymodel.mixed.hem:ExponentialOfHEMModel", spot, r, d, par)
        T, bsig, cal = vc.real("maturity"), vc.real("bs_sigma"), vc.real("calibrated_value")
        vc.assume(And(T > 0, bsig > 0, cal >= 0, cal <= 1))
        vc.ghost.update(model=model, par=par, P=P, snap=dict(par.fields), spot=spot, r=r, d=d, T=T, bsig=bsig, calibrated=cal)
        return dict(model=model, maturity=T, bs_sigma=bsig)

    def ensures(self, result, **a):
        from pyvc import ctx
        g = ctx.PATH.ghost
        calls = g.get("atm_calls", [])
        out = {"one-atm-calibration": len(calls) == 1}
        if len(calls) != 1:
            return out
        c = calls[0]
        par, model = g["par"], g["model"]
        out["calibrates-the-input-model-to-the-requested-maturity-and-volatility"] = (c["model"] is model) and And(c["maturity"] == g["T"], c["bs_sigma"] == g["bsig"])
        out["default-parameter-and-interval"] = c["parameter"] == "sigma" and And(c["parameter_interval"][0] == 0, c["parameter_interval"][1] == 1)
        ok_type = isinstance(result, Obj) and result.cls is model.cls
        out["same-model-type"] = ok_type
        if ok_type:
            np_ = result.fields["levy_model"].fields["parameters"]
            out["same-spot-rate-dividend"] = And(result.fields["spot"] == g["spot"], result.fields["r"] == g["r"], result.fields["d"] == g["d"])
            out["parameters-are-a-copy"] = np_ is not par
            out["calibrated-parameter-set"] = np_.fields["sigma"] == g["calibrated"]
            out["other-parameters-kept"] = And(*[np_.fields[k] == g["P"][k] for k in ("p", "eta1", "eta2", "intensity")])
            xi = np_.fields["p"] * np_.fields["eta1"] / (np_.fields["eta1"] - 1) + (1 - np_.fields["p"]) * np_.fields["eta2"] / (np_.fields["eta2"] + 1) - 1
            out["derived-parameters-re-initialised"] = np_.fields["_xi"] == xi
        out["input-parameters-untouched"] = And(*[par.fields[k] == v if is_sym(v) or isinstance(v, (int, float)) else par.fields[k] is v for k, v in g["snap"].items()])
        out["input-model-untouched"] = model.fields["levy_model"].fields["parameters"] is par
        return out


UNITS = [Constraint(), Synchronisation(), Calibration(), AtmCalibration(), DefaultCalibration()]
ASSUMPTIONS = ["A1: floats are mathematical reals; np.power / gamma / sqrt are (uninterpreted) functions of their arguments"]
TRUSTED_BASE = ["z3 5.1", "pyvc interpreter + numpy/scipy models"]
BOUNDED = []
