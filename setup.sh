#!/bin/sh
# Build the verification interpreter offline: /verif/.venv = python 3.12 with
# z3-solver, cvc5, crosshair, deal, icontract, jsonschema + /venv's site-packages
# (numpy, scipy, sympy, editable rpylib) via a .pth overlay.
set -e
cd "$(dirname "$0")"
V=.venv
if [ -x "$V/bin/python" ] && "$V/bin/python" -c "import z3, cvc5, sympy, numpy, scipy, jsonschema" 2>/dev/null; then
  echo "setup: $V already usable"; exit 0
fi
rm -rf "$V"
/venv/bin/python -m venv "$V" --without-pip
PIP_NO_INDEX=1 /venv/bin/python -m pip --python "$V/bin/python" install -q --no-index \
   --find-links /opt/veriftools/wheels z3-solver cvc5 crosshair-tool deal icontract jsonschema hypothesis
SP=$("$V/bin/python" -c "import sysconfig; print(sysconfig.get_paths()['purelib'])")
echo "import site; site.addsitedir('/venv/lib/python3.12/site-packages')" > "$SP/_repo_overlay.pth"
"$V/bin/python" -c "import z3, cvc5, sympy, numpy, scipy, jsonschema; print('setup: ok', z3.get_version_string())"
