#!/bin/sh
# usage: bin/storeseeds.sh <PROP> <dir-with-numbered-subdirs> : copy patch.diff/demo.py/meta.json of each change to the next free seeded/<PROP>-<n>
P=$1; SRC=$2
for d in "$SRC"/*/; do
  [ -f "$d/patch.diff" ] || continue
  n=1; while [ -d "/verif/seeded/$P-$n" ]; do n=$((n+1)); done
  mkdir -p "/verif/seeded/$P-$n"
  cp "$d/patch.diff" "/verif/seeded/$P-$n/"
  [ -f "$d/demo.py" ] && cp "$d/demo.py" "/verif/seeded/$P-$n/"
  [ -f "$d/meta.json" ] && cp "$d/meta.json" "/verif/seeded/$P-$n/"
  echo "$d -> seeded/$P-$n"
done
