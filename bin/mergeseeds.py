#!/usr/bin/env python3
"""merge the partial result files of a parallel seed sweep (SEED_RESULTS=... bin/seedsweep.py ...) into seeded/results.json;
every merged entry is stamped with the /repo commit the sweep ran against
usage: bin/mergeseeds.py <partial.json> ..."""
import json, subprocess, sys
head = subprocess.run(["git", "-C", "/repo", "log", "--oneline", "-1"], capture_output=True, text=True).stdout.split()[0]
path = "/verif/seeded/results.json"
res = json.load(open(path))
n = 0
for p in sys.argv[1:]:
    try:
        part = json.load(open(p))
    except Exception as e:
        print("skip", p, e)
        continue
    for k, v in part.items():
        v["swept_on_repo_commit"] = head
        res[k] = v
        n += 1
json.dump(res, open(path, "w"), indent=1, sort_keys=True)
print("merged", n, "entries; total", len(res), "; not caught:", sorted(k for k, v in res.items() if v.get("status") != "caught"))
