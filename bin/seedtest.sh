#!/bin/sh
# usage: bin/seedtest.sh <PROP> <patch.diff> [extra check args] : run the check against a scratch copy of /repo with the patch applied
P=$1; D=$2; shift 2
S=$(mktemp -d /tmp/seed.XXXXXX)
cp -r /repo/rpylib "$S/"
(cd "$S" && patch -p1 -s < "$D") || { echo "PATCH FAILED"; rm -rf "$S"; exit 9; }
cd /verif && PYVC_REPO="$S" ./check "$P" "$@" 2>&1 | grep -v "^  unit\|^     " | tail -6
rm -rf "$S"
