#!/usr/bin/env python3
"""run every stored seeded change against its property's check on a scratch copy of /repo; writes seeded/results.json
usage: bin/seedsweep.py [ID-prefix ...]"""
import json, os, re, shutil, subprocess, sys, tempfile, glob
ROOT = "/verif"
res_path = os.environ.get("SEED_RESULTS") or os.path.join(ROOT, "seeded", "results.json")      # SEED_RESULTS: partial file of a parallel sweep
results = json.load(open(res_path)) if os.path.exists(res_path) else {}
sel = sys.argv[1:]
for d in sorted(glob.glob(os.path.join(ROOT, "seeded", "C*-*"))):
    sid = os.path.basename(d)
    if sel and not any(sid.startswith(s) for s in sel):
        continue
    prop = sid.split("-")[0]
    tmp = tempfile.mkdtemp(prefix="seed.", dir="/tmp")
    try:
        shutil.copytree("/repo/rpylib", os.path.join(tmp, "rpylib"))
        p = subprocess.run(["patch", "-p1", "-s", "-i", os.path.join(d, "patch.diff")], cwd=tmp, capture_output=True, text=True)
        if p.returncode != 0:
            results[sid] = {"property": prop, "status": "patch-does-not-apply-to-current-tree", "detail": (p.stdout + p.stderr)[-300:]}
            json.dump(results, open(res_path, "w"), indent=1, sort_keys=True)
            print(sid, "patch-does-not-apply-to-current-tree (port it by hand, keep patch.original.diff)")
            continue
        env = dict(os.environ, PYVC_REPO=tmp)
        r = subprocess.run([os.path.join(ROOT, "check"), prop], cwd=ROOT, env=env, capture_output=True, text=True, timeout=3000)
        out = r.stdout + r.stderr
        failed = sorted(set(re.findall(r"failed obligation: (.*)", out)))
        undec = sorted(set(re.findall(r"UNDECIDED property=\S+ obligation=(.*?):", out)))
        results[sid] = {"property": prop, "exit": r.returncode, "status": "caught" if r.returncode == 1 else ("undecided" if r.returncode == 2 else ("missed" if r.returncode == 0 else "checker-error")),
                        "failed_obligations": failed[:6], "n_failed": len(failed), "undecided": undec[:3],
                        "no_failing_input": bool(re.search(r"^VIOLATION .* no-failing-input-found", out, re.M)) and not bool(re.search(r"^VIOLATION property=\S+ replay=\S+$", out, re.M))}
        demo = os.path.join(d, "demo.py")
        if r.returncode == 0 and os.path.exists(demo):
            # not flagged: does the change still break the property on the CURRENT tree?  (repairs made since the seed was
            # written can make it harmless: its own demonstration then passes on the patched copy)
            denv = dict(os.environ, PYTHONPATH=os.path.join(ROOT, "stubs") + ":" + tmp, MPMATH_NOGMPY="1", SYMPY_GROUND_TYPES="python", MPLBACKEND="Agg")
            try:
                dr = subprocess.run(["/venv/bin/python", demo], cwd=tmp, env=denv, capture_output=True, text=True, timeout=1800)
                if dr.returncode == 0:
                    results[sid]["status"] = "no-longer-a-violation"
                    results[sid]["detail"] = "the seed's own demonstration passes on the current tree with the patch applied (a later repair made the change harmless)"
            except subprocess.TimeoutExpired:
                pass
    finally:
        shutil.rmtree(tmp, ignore_errors=True)
    json.dump(results, open(res_path, "w"), indent=1, sort_keys=True)
    print(sid, results[sid]["status"], results[sid].get("failed_obligations", [])[:1])
