#!/usr/bin/env python3
"""print the sub-agent prompt for a seeded-defect request: bin/seedprompt.py C13 [n_changes]  (also creates the worktree)"""
import json, subprocess, sys, os
pid = sys.argv[1]
n = int(sys.argv[2]) if len(sys.argv) > 2 else 3
p = next(json.loads(l) for l in open('/verif/properties.jsonl') if json.loads(l)['id'] == pid)
wave = os.environ.get("SEED_WAVE", "")
wt = f"/tmp/wt_{pid.lower()}{wave}"
if not os.path.exists(wt):
    subprocess.run(["git", "-C", "/repo", "worktree", "add", "-q", "--detach", wt, "HEAD"], check=True)
os.makedirs("/tmp/stubs", exist_ok=True)
subprocess.run("cp -r /verif/stubs/* /tmp/stubs/", shell=True)
print(f"""You are helping test a verification effort by producing realistic *property-breaking* code changes ("seeded defects") for the Python library rpalfray/rpylib (a research library for multilevel Monte-Carlo pricing of Levy-driven SDEs via a continuous-time Markov chain approximation).

Your own scratch git worktree of the repository is at {wt} (work ONLY there; never touch /repo or /verif, and do not read anything under /verif). Python: /venv/bin/python. Some modules need two import stubs that are not installed; run your programs with
  cd {wt} && PYTHONPATH=/tmp/stubs:{wt} MPMATH_NOGMPY=1 SYMPY_GROUND_TYPES=python MPLBACKEND=Agg /venv/bin/python ...
(verify `import rpylib; print(rpylib.__file__)` resolves to the worktree).
The existing test suite (run inside the worktree, WITHOUT the stubs) is:
  cd {wt} && /venv/bin/python -m pytest -ra -q -p no:cacheprovider --timeout=900 --continue-on-collection-errors
On the clean worktree it reports 37 passed plus a few collection errors (modules importing gmpy2/tqdm) - that is expected; your changes must keep exactly the same 37 tests passing. (With PYTHONPATH=/tmp/stubs and `-p no:benchmark` the remaining test modules import too: they must also still pass.)

The property to break:

---
{p['id']}: {p['title']}

Statement: {p['statement']}

Quantified over: {p['quantifier']['text']}

Anchored in files: {', '.join(p['anchors']['files'])}
---

Task: produce {n} different, independent changes to the library source (each a small realistic edit a developer could plausibly make - an "optimisation", a refactoring slip, an off-by-one, a wrong branch condition or comparison, a swapped argument, a changed constant, two cooperating edits that each look fine alone ...) such that each change
 (a) still imports/compiles and keeps the existing tests passing as described above,
 (b) BREAKS the property above, and
 (c) needs something specific to manifest - an unusual input or parameter regime, a particular branch (sign pattern, dimension 3 only, an end point exactly on a grid state, an infinite bound), a multi-step sequence of operations, a particular history - NOT something that any ordinary use exposes at once.
Spread the changes over different functions/classes of the anchored files; prefer places a first reader would NOT pick (helpers deep in the files, rarely used branches, second-order effects through a collaborator), since the obvious ones have been tried already. Changes that only show through a HISTORY have been the hardest to notice so far: something cached at construction and not refreshed when an attribute is reassigned, a view / alias of an array that a later in-place update modifies, a class-level or module-level memo shared by two objects, state left behind by an earlier call on the same object, a second product date / second pass / second level - at least one of your changes should be of that kind.

For each change i = 1..{n} write, under /tmp/seed_{pid.lower()}{wave}/<i>/ :
  - patch.diff : `git diff` of that single change against the worktree's HEAD (apply-able with `git apply` / `patch -p1` at the repo root),
  - demo.py : a small standalone program that exits 0 on the unmodified code and exits non-zero (assert failure) with the change applied, demonstrating the violated property on the specific input it needs,
  - meta.json : {{"property": "{pid}", "summary": ..., "needs_to_manifest": ..., "files": [...], "ran": [commands you ran and their outcome]}}.
Make each change in the worktree, generate the diff, run the test command and the demo with the change, then `git -C {wt} checkout -- .` to reset before the next one, and run the demo on the clean tree to confirm it passes there. Do not commit anything and NEVER use `git stash` (the stash is shared between all worktrees of the repository and other people are working in theirs; reset with `git checkout -- .` only). Keep it efficient: do not run the full test-suite more often than needed (once per change). Report at the end a short list of the changes, one line each. SECOND PART (as important as the first): look for violations of the property on the UNMODIFIED code - inputs, parameter regimes, call sequences or histories (second call on the same object, attribute reassigned after construction, object shared by two users, grid whose axes differ, several product dates, dimension 3, bounds exactly on a state, values 0 / infinity) for which the code as it stands breaks a clause of the statement. For each one you can demonstrate, write a standalone reproducer /tmp/seed_{pid.lower()}{wave}/unmodified_<k>.py that exits non-zero on the unmodified code and prints what it observed against what the property requires, and describe it in your report with the concrete numbers.""")
