#!/bin/sh
# usage: bin/mutant.sh <PROP> <relative-file> <sed-expression> [extra check args]
# applies one sed mutation to a scratch copy of /repo (outside /repo and /verif), runs the check on it, removes the copy
P=$1; F=$2; E=$3; shift 3
S=$(mktemp -d /tmp/mut.XXXXXX)
cp -r /repo/rpylib "$S/"
sed -i "$E" "$S/$F"
if diff -q "/repo/$F" "$S/$F" >/dev/null; then echo "MUTANT DID NOT APPLY"; rm -rf "$S"; exit 9; fi
diff "/repo/$F" "$S/$F" | head -6
cd /verif && PYVC_REPO="$S" ./check "$P" "$@" 2>&1 | grep -v "^  unit\|^     " | tail -8
rm -rf "$S"
