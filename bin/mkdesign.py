#!/usr/bin/env python3
"""assemble DESIGN.md = doc/DESIGN_partA.tmpl.md (with the generated tables filled in) + doc/DESIGN_partB.md
the tables come from contracts/registry.py, evidence/*.json, known_findings.json, seeded/*/meta.json, seeded/results.json"""
import glob, json, os, sys
ROOT = "/verif"
sys.path[:0] = [ROOT]
from contracts import registry
props = {json.loads(l)["id"]: json.loads(l) for l in open(os.path.join(ROOT, "properties.jsonl"))}
kf = json.load(open(os.path.join(ROOT, "known_findings.json")))

FIRST_CONTACT = {   # seeds the checks missed when first run against them, and what was added
    "C05-1": "caught (bounded scripted-engine battery)", "C05-2": "caught (bounded scripted-engine battery)",
    "C06-2": "missed -> scripted history 'one level short by more than 1 % of itself' added to the trajectories battery",
    "C07-1": "missed -> two-control regression lemma + compute_coefficients contract + native engine battery added",
    "C07-2": "missed -> Engine.initialisation contract (any earlier engine state) + repeated-price battery added",
    "C09-1": "missed by C09 (caught by C01's truncated-measure contracts) -> those units now also run under C09",
    "C12-1": "missed -> margin_tail_integral contract over an abstract copula for every index list and order added",
    "C16-1": "undecided (contract object lacked the `deltas` field the constructor sets) -> object built as the constructor does",
    "C16-2": "missed by C16 (caught by C03's CouplingSDE.next_level contract) -> that unit now also runs under C16",
    "C19-2": "missed by C19 (caught by C17's default-time contracts) -> those units now also run under C19",
    "C20-1": "missed -> contracts for calibrate_model_parameter_to_atm_call and run_default_calibration added",
    "C20-2": "undecided -> field comparison repaired (see A.7 item 7)",
    "C10-2": "missed by C10 (caught by C20) -> martingale lemma also run on re-initialised parameters",
    "C18-1": "undecided -> two successive maturities on one pricer (contract) + reused-pricer clause (battery)",
    "C18-2": "missed -> degenerate Black-Scholes branch checked with sigma = 0 and a positive maturity (forward != spot)",
    "C01-6": "missed -> contract on LevyModel.truncate_levy_measure for an ALREADY truncated measure + mass lemma through the real integrate bodies",
    "C01-7": "missed by C01 (caught by C12's tail-integral-belongs-to-its-model lemma) -> that unit now also runs under C01",
    "C03-7": "undecided (object built without its constructor) -> simulation object built by the real constructor + cases 'after an earlier jump'",
    "C04-7": "missed -> chain-constructor cases in which a drift accessor was evaluated on the caller's triplet before the chain is built",
    "C05-5": "missed -> lemma results-computed-from-the-stored-samples (two passes, N_l / cost arrays updated in place as the engine does)",
    "C11-5": "undecided (object built without its constructor) -> copula built by the real constructor + cases 'parameters reassigned after construction'",
    "C14-8": "missed (only d = 3 was under contract) -> nested pairing / projection under recursive contracts, induction step at d = 3, 4, 5",
    "C16-5": "missed -> frame clause 'the model's initial value is untouched'; engine: numpy augmented assignment now mutates in place (aliases see it)",
    "C16-6": "missed -> time-dependent coefficient a(t, x) = G(t) in the Euler lemma and a symbolic lemma for the coupled scheme (both components)",
    "C02-9": "missed -> two-dimensional battery grid with a single state on one side of the origin (line buckets off the axes)",
    "C06-7": "undecided (engine object built without its constructor) -> engine built by the real constructor, the configuration's maximum level lowered afterwards",
    "C06-8": "missed -> contract on ConfigurationMultiLevel.__init__ (levels / sample size stored unchanged, 0 included)",
    "C07-8": "undecided (np.linalg.det unmodelled) -> determinant model in the executor; the two-control lemma then refutes",
    "C08-8": "missed -> seeding-order lemma extended to price_with_constant_mc_paths_and_level + native fixed-level repeat run",
    "C09-7": "undecided (parameter object built without its constructor) -> HEM / Merton parameters built by the real constructors; C20's synchronisation lemma also runs under C09",
    "C10-7": "missed -> C04's chain-constructor contract (with the accessor history) also runs under C10",
    "C10-8": "missed -> clause 'drift of an EXISTING simulation process follows a rate update' (Process.process_drift real body)",
    "C12-8": "missed -> Clayton groundedness / margins with parameters reassigned after construction (C11 lemma shared with C12)",
    "C13-8": "missed (memoising decorators were dropped by the extraction) -> decorators now modelled; bounded history 'second grid after a parameter update'",
    "C15-8": "missed at first -> lemma: two paths one after the other on the same coupled fixed-dates simulator share nothing (caught then); since the running-sum repair of the coupled simulators every date is rewritten on every path, the shared buffers are harmless and the seed's own demonstration passes on the patched current tree: recorded as no-longer-a-violation, not as caught",
    "C17-9": "missed -> lemma: Product.update follows the latest set-up (shared underlying, underlying replaced)",
    "C17-10": "missed (class not under contract) -> DefaultTimeNthUnderlying in both representations",
    "C18-7": "missed -> battery history: expiry priced, truncation parameter reassigned, same expiry priced again",
    "C18-8": "missed -> battery: FFT = COS on the second of two models differing in one parameter only; after a spot update",
    "C19-7": "missed (memoising decorators were dropped) -> decorators modelled; clauses 'theta after the pricer's model changed'",
    "C01-9": "missed by C01 (caught by C13) -> rates battery extended to the probability-step grid with the grid's own cell boundaries",
    "C03-8": "missed by C03 (caught by C13) -> C13's refine contract (per-axis) also runs under C03",
    "C04-9": "missed by C04 (caught by C10) -> C10's martingale lemma (rate reassigned after construction) also runs under C04",
    "C05-7": "missed -> adaptive-loop clause: the reported level statistics are the sample statistics, not the engine's working copies",
    "C05-8": "missed -> lemma: the adjusted-payoff statistics are a separate copy (real MCStatistics constructor)",
    "C11-7": "missed -> Clayton lemmas re-run after ANOTHER copula object was evaluated (class-level memo keyed by dimension)",
    "C11-8": "missed -> Clayton lemmas re-run after the SAME object was evaluated in the other dimension (first-use memo)",
    "C16-7": "undecided (model built without its constructor) -> rate models built by their real constructors; route 'initial rates reassigned'",
    "C12-2": "re-examined in wave 6: its earlier 'caught' came from an exception inside a clause that was itself out of the property's domain (A.7 item 19) -> lemma 'tail integrals after a truncation are history-free' (real constructor, real truncation)",
    "C09-10": "missed by C09 (caught by C01's truncate-twice mass lemma) -> that unit now also runs under C09",
    "C10-9": "missed -> clause: the deterministic PATH of an existing simulation process follows a rate update (Process.deterministic_path real body, not only process_drift)",
    "C10-10": "undecided (a branch of the code split a regime of the analytic back end) -> the analytic route forks into the two sub-regimes and probes the obligations at a point of each (z3 model of the regime's facts and the branch condition)",
    "C15-9": "missed -> running-sum lemma re-run after ANOTHER chain on another grid met the same increments (class-level memo keyed by the increment)",
    "C15-10": "undecided (numpy.isclose unmodelled) -> isclose / allclose models; the step-cap lemma states 'every original point is kept' also when points are dropped",
    "C17-12": "missed by C17 (and C07) -> control-underlying lemma: same class, terms differing in a PRIVATE attribute (DefaultTime levels); the unit also runs under C17",
    "C18-9": "missed -> battery history: ONE FFT pricer across spot / dividend / rate updates of its model (also exposed the stale-rate defect, fix 709587e)",
    "C18-10": "missed -> contract on COSPricer.butterfly (call combination for ANY three strikes; put tied to call by the proved parity)",
    "C19-9": "undecided (dict membership with a symbolic key) -> dicts with symbolic keys modelled (same-term policy, as for the memoising decorators)",
    "C08-9": "undecided (numpy.random.seed inside a task) -> ledger of re-seeds inside tasks over two passes and two levels: the seeds of all tasks of a run are pairwise distinct; native multilevel pool replay",
    "C01-10": "missed -> lemma: the interval probability of the adapted tree belongs to ITS sampler (two samplers, two models, same grid; engine: dict keys that are tuples with symbolic entries)",
    "C01-11": "missed -> lemma: create_q_vector for a second measure on the same grid object returns THAT measure's cell masses",
    "C04-11": "missed -> lemma: compute_mu_h against create_q_vector under an ABSTRACT grid.middle (mu_h = sum of state x rate over the same cells) + probability-step grid in the native mean battery",
    "C14-11": "missed by C14 (caught by C02's joint lemma on the inversion sampler and the stateful index projection) -> that unit now also runs under C14",
    "C20-9": "missed -> contract case: a second ATM calibration after one with the same spot / maturity / volatility but another rate and dividend yield (module-level table)",
    "C08-10": "missed by C08 (C15's fixed-date pre-computation lemma, restated at the level of the Poisson generator, catches it) -> that unit now also runs under C08",
}


def ev(pid):
    p = os.path.join(ROOT, "evidence", pid + ".json")
    return json.load(open(p)) if os.path.exists(p) else {}


def checks():
    out = []
    for pid in sorted(registry.CHECKS):
        c = registry.CHECKS[pid]
        e = ev(pid)
        cov = e.get("coverage", {})
        out.append(f"### {pid} — {props[pid]['title']}  (level claimed: {c['level']})\n")
        out.append(f"*Technique.* {c['technique']}.\n")
        out.append(f"*Decided.* {c['text']}\n")
        out.append(f"*Not decided / assumed.* {c['note']}\n")
        if cov:
            be = ", ".join(f"{k} {v}" for k, v in sorted(cov.get("backends", {}).items()))
            sol = cov.get("solver", {})
            out.append(f"*Last clean run (quick tier).* {cov.get('obligations')} obligations generated, {cov.get('discharged')} discharged "
                       f"({be}); {cov.get('units')} units, {cov.get('paths')} paths; z3 {sol.get('z3_time', 0):.1f} s, cvc5 {sol.get('cvc5_time', 0):.1f} s, "
                       f"sympy {sol.get('sympy_time', 0):.1f} s; {len(cov.get('functions_under_contract', []))} functions under contract, "
                       f"{len(cov.get('function_bodies_executed', {}))} real function bodies executed.\n")
            for b in cov.get("bounded", []) if isinstance(cov.get("bounded"), list) else []:
                out.append(f"*Bounded stand-in* `{b.get('name')}`: {b.get('bound', '')} ({b.get('evaluations', '?')} evaluations).\n")
        n_kf = sum(1 for f in kf["findings"] if f["property"] == pid)
        n_fx = sum(1 for f in kf["fixed"] if f["property"] == pid)
        out.append(f"*Defects.* {n_fx} repaired, {n_kf} known finding(s) (§A.8).\n")
    return "\n".join(out)


def fixed():
    rows = ["| property | commit | what failed |", "|---|---|---|"]
    for f in sorted(kf["fixed"], key=lambda x: x["property"]):
        what = f["what"].split(f.get("commit", "") + " ", 1)[-1] if f.get("commit") else f["what"]
        rows.append(f"| {f['property']} | `{f.get('commit', '')}` | {what.replace('|', '/')} |")
    return "\n".join(rows)


def findings():
    out = []
    for f in sorted(kf["findings"], key=lambda x: x["property"]):
        lab = f.get("obligation") or f.get("obligation_regex")
        out.append(f"- **{f['property']}** `{lab}` — {f['what']}")
    return "\n".join(out)


def seeds():
    rp = os.path.join(ROOT, "seeded", "results.json")
    res = json.load(open(rp)) if os.path.exists(rp) else {}
    rows = ["| seed | change (from its meta.json) | last sweep | caught by | first contact |", "|---|---|---|---|---|"]
    for d in sorted(glob.glob(os.path.join(ROOT, "seeded", "C*-*"))):
        sid = os.path.basename(d)
        try:
            meta = json.load(open(os.path.join(d, "meta.json")))
        except Exception:
            meta = {}
        summ = str(meta.get("summary", "")).replace("|", "/").replace("\n", " ")
        summ = summ[:230] + ("…" if len(summ) > 230 else "")
        r = res.get(sid, {})
        st = r.get("status", "not swept yet")
        if st == "caught" and r.get("no_failing_input"):
            st = "caught (no-failing-input-found)"
        st += f" @{r['swept_on_repo_commit']}" if r.get("swept_on_repo_commit") else (" (on an earlier tree)" if r else "")
        by = "; ".join(f"`{x}`" for x in r.get("failed_obligations", [])[:2]).replace("|", "/")
        rows.append(f"| {sid} | {summ} | {st} | {by} | {FIRST_CONTACT.get(sid, 'caught')} |")
    return "\n".join(rows)


tmpl = open(os.path.join(ROOT, "doc", "DESIGN_partA.tmpl.md")).read()
for key, fn in (("checks", checks), ("fixed", fixed), ("findings", findings), ("seeds", seeds)):
    tmpl = tmpl.replace(f"<!-- GENERATED:{key} -->", fn())
partB = open(os.path.join(ROOT, "doc", "DESIGN_partB.md")).read()
open(os.path.join(ROOT, "DESIGN.md"), "w").write(tmpl + partB)
print("DESIGN.md written:", len(tmpl.splitlines()), "+", len(partB.splitlines()), "lines")
