"""debug: run one unit in-process, print every obligation with time.  usage: dbg.py C14 <unit-substring> [case]"""
import sys, time, os
sys.path[:0] = ['/verif/stubs', '/verif']
from pyvc import runner, path as P
runner._env_setup()
import importlib
prop, sub = sys.argv[1], sys.argv[2]
mod = importlib.import_module(f"contracts.{prop.lower()}")
for u in runner.all_units(mod):
    for case in u.cases:
        if sub in u.unit_name(case):
            ex = P.Explorer(u.make_unit(case, runner.interp_factory), max_paths=u.max_paths)
            t0 = time.time()
            res = ex.run()
            print(u.unit_name(case), "paths", ex.paths, "time", round(time.time() - t0, 2), P.STATS)
            for r in res:
                if r.status != "proved" or r.time_s > 1 or "-a" in sys.argv:
                    print("  ", r.status, r.label, r.backend, round(r.time_s, 2), r.detail[:300], r.model)
