#!/usr/bin/env python3
"""Regenerate MANIFEST.json from contracts/registry.py (single source of truth)."""
import json, os, sys
sys.path.insert(0, os.path.dirname(os.path.dirname(os.path.abspath(__file__))))
from contracts import registry

ROOT = os.path.dirname(os.path.dirname(os.path.abspath(__file__)))
props = [json.loads(l)["id"] for l in open(os.path.join(ROOT, "properties.jsonl"))]
checks = []
for pid in props:
    c = registry.CHECKS.get(pid)
    if not c:
        continue
    checks.append({
        "property_id": pid,
        "quick_cmd": f"./check {pid} --tier quick",
        "thorough_cmd": f"./check {pid} --tier thorough",
        "evidence_file": f"evidence/{pid}.json",
        "replay_cmd_template": "./check --replay {path}",
        "engine": "pyvc",
        "level_claimed": {"category": c["level"], "text": c["text"], "design_ref": c.get("design_ref", f"DESIGN.md §4 {pid}")},
        "level_note": c["note"],
        "technique": c["technique"],
    })
na = [{"property_id": p, "reason": registry.NOT_APPLICABLE.get(p, "check not built yet in this round; see DESIGN.md §7 build order")}
      for p in props if p not in registry.CHECKS]
m = {
    "version": 1,
    "setup_cmd": "./setup.sh",
    "hooks": {
        "guard": "RPYLIB_VERIF",
        "enable": "no hooks: contracts are sidecar files under /verif/contracts and the verified text is re-read from /repo's working tree on every run; RPYLIB_VERIF is reserved and unused",
        "baseline_off_cmd": "cd /repo && /venv/bin/python -m pytest -ra -q -p no:cacheprovider --timeout=900 --continue-on-collection-errors",
        "source_commits": registry.HOOK_COMMITS,
        "add_only": True,
    },
    "engines": [{"name": "pyvc", "path": "pyvc/", "serves_properties": sorted(registry.CHECKS),
                 "kind_free_text": "AST->SMT verification-condition generator over the real rpylib sources with sidecar contracts; z3 + cvc5 + sympy back ends; native replay of counter-models"}],
    "checks": checks,
    "not_applicable": na,
    "notes": registry.NOTES,
}
json.dump(m, open(os.path.join(ROOT, "MANIFEST.json"), "w"), indent=1)
import jsonschema
jsonschema.validate(m, json.load(open("/root/.vp/MANIFEST.schema.json")))
print("MANIFEST ok:", len(checks), "checks,", len(na), "not claimed")
