"""Pass-through stand-in for tqdm (not installed in this sandbox). Assumption A5."""


class tqdm:
    def __init__(self, iterable=None, *args, **kwargs):
        self.iterable = iterable

    def __iter__(self):
        return iter(self.iterable)

    def update(self, n=1):
        pass

    def close(self):
        pass

    def set_description(self, *a, **k):
        pass

    def __enter__(self):
        return self

    def __exit__(self, *exc):
        return False


def trange(*args, **kwargs):
    return tqdm(range(*args))
