"""Minimal offline stand-in for gmpy2 (not installed in this sandbox).

rpylib only uses gmpy2.qdiv (tools/generic.py).  Fraction has the same exact
rational semantics (floor, comparison, arithmetic) as gmpy2.mpq.
Trusted assumption A5 in DESIGN.md.
"""
from fractions import Fraction


def qdiv(n, d=1):
    return Fraction(n, d)
